package main

func checkCmd(args []string) int  { return 2 }
func replayCmd(args []string) int { return 2 }
