package main

import (
	"encoding/json"
	"flag"
	"fmt"
	"golang.org/x/tools/go/ssa"
	"os"
	"os/exec"
	"path/filepath"
	"regexp"
	"sort"
	"strconv"
	"strings"
	"sync"
	"time"

	"gosym/interp"
)

func verifRoot() string {
	if d := os.Getenv("VERIF_ROOT"); d != "" {
		return d
	}
	return filepath.Dir(harnessDir())
}

type knownFinding struct {
	Property string            `json:"property"`
	Harness  string            `json:"harness"`
	Label    string            `json:"label"`
	Kind     string            `json:"kind,omitempty"`
	Where    map[string]string `json:"where,omitempty"`
	Status   string            `json:"status"` // known | fixed
	Commit   string            `json:"commit,omitempty"`
	What     string            `json:"what"`
}

func loadKnown() []knownFinding {
	b, err := os.ReadFile(filepath.Join(verifRoot(), "known_findings.json"))
	if err != nil {
		return nil
	}
	var out []knownFinding
	if err := json.Unmarshal(b, &out); err != nil {
		fmt.Fprintln(os.Stderr, "known_findings.json:", err)
		os.Exit(3)
	}
	return out
}

func (k knownFinding) matches(prop, harness string, f *interp.Failure) bool {
	if k.Property != prop || k.Harness != harness || k.Label != f.Label {
		return false
	}
	if k.Kind != "" && k.Kind != f.Kind {
		return false
	}
	for lbl, want := range k.Where {
		ok := false
		for _, c := range f.Choices {
			if c.Label == lbl {
				for _, alt := range strings.Split(want, "|") {
					if strconv.Itoa(c.Alt) == alt {
						ok = true
					}
				}
			}
		}
		if !ok {
			return false
		}
	}
	return true
}

// ---------------------------------------------------------------- replay

type replayInput struct {
	Kind  string `json:"kind"`
	Label string `json:"label"`
	Bits  string `json:"bits,omitempty"`
	Bytes []int  `json:"bytes,omitempty"`
	N     int    `json:"n,omitempty"`
	Alt   int    `json:"alt,omitempty"`
}

type replayFile struct {
	Property  string        `json:"property"`
	Harness   string        `json:"harness"`
	Package   string        `json:"package"`
	Kind      string        `json:"kind"`
	Label     string        `json:"label"`
	Detail    string        `json:"detail"`
	Tier      int           `json:"tier"`
	Inputs    []replayInput `json:"inputs"`
	Decisions []int         `json:"decisions"`
	Choices   string        `json:"choices"`
}

func makeReplay(prop, pkg, harness string, tier int, f *interp.Failure) *replayFile {
	rf := &replayFile{Property: prop, Harness: harness, Package: pkg, Kind: f.Kind, Label: f.Label, Detail: f.Detail, Tier: tier, Decisions: f.Decisions}
	m := f.Model
	if m == nil {
		m = interp.Model{}
	}
	var cs []string
	for _, c := range f.Choices {
		cs = append(cs, fmt.Sprintf("%s=%d", c.Label, c.Alt))
	}
	rf.Choices = strings.Join(cs, ",")
	for _, in := range f.Inputs {
		ri := replayInput{Kind: in.Kind, Label: in.Label}
		switch in.Kind {
		case "f64":
			ri.Bits = strconv.FormatUint(m[in.Vars[0]], 16)
		case "int":
			ri.Bits = strconv.FormatInt(int64(m[in.Vars[0]]), 10)
		case "bool":
			ri.Bits = strconv.FormatUint(m[in.Vars[0]]&1, 10)
		case "byte":
			ri.Bits = strconv.FormatUint(m[in.Vars[0]]&0xff, 10)
		case "str":
			ri.Bytes = []int{}
			for _, v := range in.Vars {
				ri.Bytes = append(ri.Bytes, int(m[v]&0xff))
			}
		case "choose":
			ri.N, ri.Alt = in.N, in.Alt
		}
		rf.Inputs = append(rf.Inputs, ri)
	}
	return rf
}

type replayBuilder struct {
	mu      sync.Mutex
	tmp     string
	bins    map[string]string // pkg|race -> binary
	errs    map[string]string
	names   map[string][]string // pkg path -> harness names
	overlay string
}

func pkgDir(pkgPath string) string {
	rel := strings.TrimPrefix(strings.TrimPrefix(pkgPath, "github.com/vedadiyan/genql"), "/")
	return filepath.Join(repoDir, rel)
}

func newReplayBuilder(m *interp.Machine) (*replayBuilder, error) {
	tmp, err := os.MkdirTemp("", "gosym-replay-")
	if err != nil {
		return nil, err
	}
	rb := &replayBuilder{tmp: tmp, bins: map[string]string{}, errs: map[string]string{}, names: map[string][]string{}}
	_, real := overlayFiles(false)
	repl := map[string]string{}
	for v, r := range real {
		repl[v] = r
	}
	for _, f := range m.HarnessFuncs("H_") {
		p := f.Pkg.Pkg.Path()
		rb.names[p] = append(rb.names[p], f.Name())
	}
	for p, names := range rb.names {
		var b strings.Builder
		pkgName := "genql"
		for _, f := range m.HarnessFuncs("H_") {
			if f.Pkg.Pkg.Path() == p {
				pkgName = f.Pkg.Pkg.Name()
			}
		}
		fmt.Fprintf(&b, "package %s\n\nimport (\n\t\"os\"\n\t\"testing\"\n\n\tverif \"github.com/vedadiyan/genql/zz_verif\"\n)\n\n", pkgName)
		b.WriteString("var verifHarnesses = map[string]func(){\n")
		sort.Strings(names)
		for _, n := range names {
			fmt.Fprintf(&b, "\t%q: %s,\n", n, n)
		}
		b.WriteString("}\n\nfunc TestVerifReplay(t *testing.T) {\n\tverif.RunReplay(verifHarnesses[os.Getenv(\"VERIF_HARNESS\")])\n}\n")
		tf := filepath.Join(tmp, strings.ReplaceAll(p, "/", "_")+"_replay_test.go")
		if err := os.WriteFile(tf, []byte(b.String()), 0o644); err != nil {
			return nil, err
		}
		repl[filepath.Join(pkgDir(p), "zz_verif_replay_test.go")] = tf
	}
	ovb, _ := json.Marshal(map[string]any{"Replace": repl})
	rb.overlay = filepath.Join(tmp, "overlay.json")
	if err := os.WriteFile(rb.overlay, ovb, 0o644); err != nil {
		return nil, err
	}
	return rb, nil
}

func (rb *replayBuilder) close() { os.RemoveAll(rb.tmp) }

func goEnv() []string {
	return append(os.Environ(), "GOFLAGS=-mod=mod", "GOPROXY=off", "GOSUMDB=off", "GOTOOLCHAIN=local")
}

func (rb *replayBuilder) binary(pkg string, race bool) (string, error) {
	rb.mu.Lock()
	defer rb.mu.Unlock()
	key := pkg
	if race {
		key += "|race"
	}
	if b, ok := rb.bins[key]; ok {
		if b == "" {
			return "", fmt.Errorf("%s", rb.errs[key])
		}
		return b, nil
	}
	out := filepath.Join(rb.tmp, strings.ReplaceAll(key, "/", "_")+".test")
	args := []string{"test", "-c", "-vet=off", "-overlay", rb.overlay, "-o", out}
	if race {
		args = append(args, "-race")
	}
	args = append(args, ".")
	cmd := exec.Command("go", args...)
	cmd.Dir = pkgDir(pkg)
	cmd.Env = goEnv()
	b, err := cmd.CombinedOutput()
	if err != nil {
		rb.bins[key] = ""
		rb.errs[key] = fmt.Sprintf("native build failed: %v\n%s", err, b)
		return "", fmt.Errorf("%s", rb.errs[key])
	}
	rb.bins[key] = out
	return out, nil
}

type replayOutcome struct {
	Reproduced bool
	Runs       int
	Output     string
	Note       string
}

var failRe = regexp.MustCompile(`(?m)^VERIF-FAIL (.*)$`)

// runReplay executes the harness natively on the recorded inputs and
// reports whether the failure shows up.
func (rb *replayBuilder) runReplay(rf *replayFile, path string) replayOutcome {
	race := rf.Kind == "race"
	bin, err := rb.binary(rf.Package, race)
	if err != nil {
		return replayOutcome{Note: err.Error()}
	}
	repeats := 1
	timeout := "60s"
	switch rf.Kind {
	case "deadlock", "bound":
		repeats = 3
		timeout = "20s"
	case "race", "crash":
		repeats = 40
	default:
		if strings.Contains(rf.Detail, "maporder") || mapOrderDependent(rf) {
			repeats = 40
		}
	}
	var last string
	for r := 1; r <= repeats; r++ {
		cmd := exec.Command(bin, "-test.run", "^TestVerifReplay$", "-test.count=1", "-test.timeout="+timeout)
		cmd.Dir = pkgDir(rf.Package)
		cmd.Env = append(goEnv(), "VERIF_REPLAY="+path, "VERIF_HARNESS="+rf.Harness, "GORACE=halt_on_error=0")
		done := make(chan struct{})
		var out []byte
		go func() { out, _ = cmd.CombinedOutput(); close(done) }()
		select {
		case <-done:
		case <-time.After(90 * time.Second):
			if cmd.Process != nil {
				cmd.Process.Kill()
			}
			<-done
			out = append(out, []byte("\nVERIF-TIMEOUT\n")...)
		}
		last = string(out)
		if reproduced(rf, last) {
			return replayOutcome{Reproduced: true, Runs: r, Output: trim(last, 4000)}
		}
		if strings.Contains(last, "VERIF-MISMATCH") || strings.Contains(last, "VERIF-ASSUME-FAILED") {
			break
		}
	}
	return replayOutcome{Reproduced: false, Runs: repeats, Output: trim(last, 4000)}
}

// runPass replays a passing path natively: Reproduced=true means the native
// run reached the end with no failed assertion and no panic.
func (rb *replayBuilder) runPass(rf *replayFile, path string) replayOutcome {
	bin, err := rb.binary(rf.Package, false)
	if err != nil {
		return replayOutcome{Note: err.Error()}
	}
	cmd := exec.Command(bin, "-test.run", "^TestVerifReplay$", "-test.count=1", "-test.timeout=60s")
	cmd.Dir = pkgDir(rf.Package)
	cmd.Env = append(goEnv(), "VERIF_REPLAY="+path, "VERIF_HARNESS="+rf.Harness)
	done := make(chan struct{})
	var out []byte
	go func() { out, _ = cmd.CombinedOutput(); close(done) }()
	select {
	case <-done:
	case <-time.After(90 * time.Second):
		if cmd.Process != nil {
			cmd.Process.Kill()
		}
		<-done
		out = append(out, []byte("\nVERIF-TIMEOUT\n")...)
	}
	o := string(out)
	ok := strings.Contains(o, "VERIF-DONE") && strings.Contains(o, "VERIF-REACH end") && !strings.Contains(o, "VERIF-FAIL") &&
		!strings.Contains(o, "VERIF-PANIC") && !strings.Contains(o, "VERIF-MISMATCH") && !strings.Contains(o, "VERIF-ASSUME-FAILED") && !strings.Contains(o, "VERIF-TIMEOUT")
	return replayOutcome{Reproduced: ok, Runs: 1, Output: trim(o, 3000)}
}

func mapOrderDependent(rf *replayFile) bool {
	return os.Getenv("VERIF_REPLAY_REPEAT") != "" || rf.Kind == "assert"
}

func trim(s string, n int) string {
	if len(s) > n {
		return s[:n/2] + "\n...\n" + s[len(s)-n/2:]
	}
	return s
}

func reproduced(rf *replayFile, out string) bool {
	switch rf.Kind {
	case "assert":
		for _, m := range failRe.FindAllStringSubmatch(out, -1) {
			if m[1] == rf.Label {
				return true
			}
		}
		return false
	case "panic":
		return strings.Contains(out, "VERIF-PANIC")
	case "crash":
		if strings.Contains(rf.Label, "fmt-cycle") {
			return strings.Contains(out, "stack overflow") || strings.Contains(out, "goroutine stack exceeds")
		}
		return !strings.Contains(out, "VERIF-DONE") && (strings.Contains(out, "panic:") || strings.Contains(out, "fatal error")) ||
			(strings.Contains(out, "panic:") && strings.Contains(out, "goroutine"))
	case "deadlock":
		return strings.Contains(out, "all goroutines are asleep") || strings.Contains(out, "VERIF-TIMEOUT") || strings.Contains(out, "test timed out")
	case "race":
		return strings.Contains(out, "DATA RACE") || strings.Contains(out, "concurrent map")
	case "bound":
		return strings.Contains(out, "stack overflow") || strings.Contains(out, "goroutine stack exceeds") || strings.Contains(out, "VERIF-TIMEOUT") || strings.Contains(out, "test timed out")
	}
	return false
}

// ---------------------------------------------------------------- check

type harnessReport struct {
	Name         string           `json:"harness"`
	Paths        int64            `json:"paths"`
	Nontrivial   int64            `json:"paths_with_solver_decided_branch"`
	Infeasible   int64            `json:"infeasible_prefixes"`
	Steps        int64            `json:"ssa_instructions_executed"`
	Complete     bool             `json:"explored_to_completion"`
	WallS        float64          `json:"wall_s"`
	Asserts      int64            `json:"assertions_checked"`
	QFeas        int64            `json:"solver_feasibility_queries"`
	QAssert      int64            `json:"solver_assertion_queries"`
	QCached      int64            `json:"queries_answered_from_cache"`
	QModel       int64            `json:"queries_answered_by_cached_model"`
	QUnknown     int64            `json:"solver_unknown"`
	SolverS      float64          `json:"solver_s"`
	Decisions    map[string]int64 `json:"decisions_by_kind"`
	Reached      map[string]int64 `json:"reach_labels"`
	BoundExceed  []string         `json:"bound_exceeded,omitempty"`
	Unsupported  []string         `json:"unsupported_paths,omitempty"`
	Inconclusive []string         `json:"inconclusive,omitempty"`
	EngineErrors []string         `json:"engine_errors,omitempty"`
	Threads      int              `json:"max_goroutines"`
}

func checkCmd(args []string) int {
	fs := flag.NewFlagSet("check", flag.ExitOnError)
	tierS := fs.String("tier", os.Getenv("VERIF_TIER"), "quick|thorough")
	workers := fs.Int("workers", 16, "worker goroutines")
	only := fs.String("only", "", "run only harnesses whose name contains this")
	var prop string
	if len(args) > 0 && !strings.HasPrefix(args[0], "-") {
		prop = args[0]
		args = args[1:]
	}
	fs.Parse(args)
	if prop == "" && fs.NArg() > 0 {
		prop = fs.Arg(0)
	}
	if prop == "" {
		fmt.Fprintln(os.Stderr, "usage: gosym check <property> [--tier quick|thorough]")
		return 2
	}
	tier := 0
	if *tierS == "thorough" {
		tier = 1
	} else {
		*tierS = "quick"
	}
	seed, _ := strconv.Atoi(os.Getenv("VERIF_SEED"))
	t0 := time.Now()
	m := loadMachine()
	m.Tier = tier
	spec := properties[prop]
	known := loadKnown()
	var harnesses []*hrun
	for _, f := range m.HarnessFuncs("H_" + prop + "_") {
		if *only != "" && !strings.Contains(f.Name(), *only) {
			continue
		}
		harnesses = append(harnesses, &hrun{fn: f.Name(), pkg: f.Pkg.Pkg.Path()})
	}
	if len(harnesses) == 0 {
		fmt.Fprintln(os.Stderr, "no harness for", prop)
		return 3
	}
	rb, err := newReplayBuilder(m)
	if err != nil {
		fmt.Fprintln(os.Stderr, err)
		return 3
	}
	defer rb.close()

	broken := false
	violations := 0
	var knownLines, violLines, mismatchLines []string
	var reports []harnessReport
	var samples []any
	functions := map[string]bool{}
	blocksSeen := map[*ssa.BasicBlock]bool{}
	intrinsics := map[string]bool{}
	assumptions := map[string]bool{}
	var tot interp.Stats
	var solverS float64
	replays := 0
	passReplays := 0
	replayDir := filepath.Join(verifRoot(), "out", "replay", prop)
	os.RemoveAll(replayDir)
	os.MkdirAll(replayDir, 0o755)
	nreplay := 0

	for _, h := range harnesses {
		fn := m.LookupFunc(h.pkg, h.fn)
		cfg := interp.Config{Workers: *workers, Solver: solverFromEnv()}
		b := spec.budget(h.fn, tier)
		cfg.Budgets = b.Budgets
		cfg.SolverTimeout = b.SolverTimeoutMs
		if b.WallS > 0 {
			cfg.Deadline = time.Now().Add(time.Duration(b.WallS) * time.Second)
		}
		res := m.Explore(fn, cfg)
		s := res.Stats
		tot.Paths += s.Paths
		tot.PathsNontriv += s.PathsNontriv
		tot.QFeas += s.QFeas
		tot.QAssert += s.QAssert
		tot.QCached += s.QCached
		tot.QModelHit += s.QModelHit
		tot.QUnknown += s.QUnknown
		tot.AssertsChecked += s.AssertsChecked
		for k := range s.Decisions {
			tot.Decisions[k] += s.Decisions[k]
		}
		solverS += res.SolverTime.Seconds()
		for k := range res.Functions {
			functions[k] = true
		}
		for b := range res.Blocks {
			blocksSeen[b] = true
		}
		for k := range res.Intrinsics {
			intrinsics[k] = true
		}
		for k := range res.Assumptions {
			assumptions[k] = true
		}
		rep := harnessReport{Name: h.fn, Paths: s.Paths, Nontrivial: s.PathsNontriv, Infeasible: s.Infeasible, Steps: s.Steps, Complete: res.Complete,
			WallS: res.Wall.Seconds(), Asserts: s.AssertsChecked, QFeas: s.QFeas, QAssert: s.QAssert, QCached: s.QCached, QModel: s.QModelHit, QUnknown: s.QUnknown,
			SolverS: res.SolverTime.Seconds(), Decisions: map[string]int64{}, Reached: res.Reached, BoundExceed: res.BoundExceed, Unsupported: res.Unsupported,
			Inconclusive: res.Inconclusive, EngineErrors: res.EngineErrors, Threads: res.MaxThreads}
		for k := interp.DecKind(0); k < interp.DkNumKinds; k++ {
			if s.Decisions[k] > 0 {
				rep.Decisions[k.String()] = s.Decisions[k]
			}
		}
		reports = append(reports, rep)
		for i := range res.Samples {
			if len(samples) < 12 {
				samples = append(samples, map[string]any{"harness": h.fn, "path": res.Samples[i]})
			}
		}
		fmt.Printf("[%s] %s: paths=%d (nontrivial %d) asserts=%d queries=%d/%d cached=%d unknown=%d failures=%d complete=%v wall=%.1fs\n",
			prop, h.fn, s.Paths, s.PathsNontriv, s.AssertsChecked, s.QFeas, s.QAssert, s.QCached+s.QModelHit, s.QUnknown, len(res.Failures), res.Complete, res.Wall.Seconds())

		// a harness that is not explored to completion, hits an engine error
		// or never reaches its end is not counted as covered
		if len(res.EngineErrors) > 0 {
			broken = true
			for _, e := range res.EngineErrors {
				fmt.Printf("ENGINE-ERROR harness=%s %s\n", h.fn, trim(e, 1500))
			}
		}
		if !res.Complete {
			fmt.Printf("INCOMPLETE harness=%s: %v\n", h.fn, res.BoundExceed)
			if !spec.allowIncomplete(h.fn) {
				broken = true
			}
		} else if len(res.BoundExceed) > 0 {
			fmt.Printf("BOUND-EXCEEDED harness=%s: %v\n", h.fn, res.BoundExceed)
			if !spec.allowIncomplete(h.fn) {
				broken = true
			}
		}
		for _, u := range res.Unsupported {
			fmt.Printf("UNSUPPORTED-PATH harness=%s %s\n", h.fn, u)
		}
		if len(res.Unsupported) > 0 && !spec.allowUnsupported(h.fn) {
			broken = true
		}
		for _, n := range res.Inconclusive {
			if strings.Contains(n, "assertion") || strings.Contains(n, "partial concretisation") {
				// an assertion the solvers could not decide is not a pass
				fmt.Printf("INCONCLUSIVE harness=%s %s\n", h.fn, n)
				broken = true
			}
		}
		if res.Reached["end"] == 0 {
			fmt.Printf("VACUOUS harness=%s: no feasible path reaches the end of the harness\n", h.fn)
			broken = true
		}

		// group failures and replay one representative per group
		groups := map[string][]*interp.Failure{}
		var order []string
		for i := range res.Failures {
			f := &res.Failures[i]
			var cs []string
			for _, c := range f.Choices {
				cs = append(cs, fmt.Sprintf("%s=%d", c.Label, c.Alt))
			}
			key := f.Kind + "|" + f.Label + "|" + strings.Join(cs, ",")
			if _, ok := groups[key]; !ok {
				order = append(order, key)
			}
			groups[key] = append(groups[key], f)
		}
		sort.Strings(order)
		type job struct {
			key  string
			f    *interp.Failure
			rf   *replayFile
			path string
			out  replayOutcome
		}
		var jobs []*job
		perLabel := map[string]int{}
		skipped := 0
		for _, key := range order {
			fsg := groups[key]
			// at most 8 instance groups per assertion label are replayed and
			// reported; the rest are counted (the verdict does not change)
			lk := fsg[0].Kind + "|" + fsg[0].Label
			perLabel[lk]++
			if perLabel[lk] > 8 {
				skipped++
				continue
			}
			lim := 2
			if len(fsg) < lim {
				lim = len(fsg)
			}
			for _, f := range fsg[:lim] {
				nreplay++
				rf := makeReplay(prop, h.pkg, h.fn, tier, f)
				path := filepath.Join(replayDir, fmt.Sprintf("%s_%03d.json", h.fn, nreplay))
				jb, _ := json.MarshalIndent(rf, "", " ")
				os.WriteFile(path, jb, 0o644)
				jobs = append(jobs, &job{key: key, f: f, rf: rf, path: path})
			}
		}
		if skipped > 0 {
			fmt.Printf("[%s] %s: %d further failing instance groups not replayed (same assertion labels as the reported ones)\n", prop, h.fn, skipped)
		}
		var wg sync.WaitGroup
		sem := make(chan struct{}, 8)
		for _, j := range jobs {
			wg.Add(1)
			go func(j *job) {
				defer wg.Done()
				sem <- struct{}{}
				j.out = rb.runReplay(j.rf, j.path)
				<-sem
			}(j)
		}
		wg.Wait()
		replays += len(jobs)
		// translation validation of the pass direction: sampled passing
		// paths are replayed natively and must pass there too
		if os.Getenv("VERIF_NO_PASS_VALIDATION") == "" {
			var pjobs []*job
			for i := range res.PassSamples {
				f := &res.PassSamples[i]
				nreplay++
				rf := makeReplay(prop, h.pkg, h.fn, tier, f)
				path := filepath.Join(replayDir, fmt.Sprintf("%s_pass_%03d.json", h.fn, nreplay))
				jb, _ := json.MarshalIndent(rf, "", " ")
				os.WriteFile(path, jb, 0o644)
				pjobs = append(pjobs, &job{f: f, rf: rf, path: path})
			}
			var pwg sync.WaitGroup
			for _, j := range pjobs {
				pwg.Add(1)
				go func(j *job) {
					defer pwg.Done()
					sem <- struct{}{}
					j.out = rb.runPass(j.rf, j.path)
					<-sem
				}(j)
			}
			pwg.Wait()
			for _, j := range pjobs {
				if j.out.Note != "" {
					mismatchLines = append(mismatchLines, fmt.Sprintf("REPLAY-UNAVAILABLE harness=%s: %s", h.fn, trim(j.out.Note, 600)))
					break
				}
				passReplays++
				if !j.out.Reproduced {
					mismatchLines = append(mismatchLines, fmt.Sprintf("ENGINE-MISMATCH harness=%s replay=%s: a path the engine proved passes natively FAILS on its model (choices=[%s])\n%s", h.fn, j.path, j.rf.Choices, trim(j.out.Output, 1500)))
				} else {
					os.Remove(j.path)
				}
			}
		}
		seenKey := map[string]bool{}
		for _, j := range jobs {
			if seenKey[j.key] && !j.out.Reproduced {
				continue
			}
			if j.out.Reproduced {
				if seenKey[j.key+"#ok"] {
					continue
				}
				seenKey[j.key+"#ok"] = true
			}
			seenKey[j.key] = true
			desc := fmt.Sprintf("harness=%s label=%s kind=%s choices=[%s] (%d paths)", h.fn, j.f.Label, j.f.Kind, j.rf.Choices, res.FailureCounts[j.f.Kind+"|"+j.f.Label+"|"+fmt.Sprint(j.f.Choices)])
			if !j.out.Reproduced {
				if j.out.Note != "" {
					mismatchLines = append(mismatchLines, fmt.Sprintf("REPLAY-UNAVAILABLE %s: %s", desc, trim(j.out.Note, 600)))
				} else {
					mismatchLines = append(mismatchLines, fmt.Sprintf("ENGINE-MISMATCH %s replay=%s: the counterexample does not reproduce natively (%d runs)\n%s", desc, j.path, j.out.Runs, trim(j.out.Output, 1200)))
				}
				continue
			}
			var kf *knownFinding
			for i := range known {
				if known[i].Status == "known" && known[i].matches(prop, h.fn, j.f) {
					kf = &known[i]
					break
				}
			}
			if kf != nil {
				knownLines = append(knownLines, fmt.Sprintf("KNOWN-FINDING: property=%s %s [%s]", prop, kf.What, desc))
			} else {
				violations++
				violLines = append(violLines, fmt.Sprintf("VIOLATION property=%s replay=%s %s detail=%s", prop, j.path, desc, trim(strings.ReplaceAll(j.f.Detail, "\n", " "), 300)))
			}
		}
	}
	// the repository's own unit tests, executed by the engine (translation
	// validation of the interpreter and its intrinsics on this tree)
	stPassed, stNotEnc, stBad, stTotal := 0, 0, 0, 0
	if os.Getenv("VERIF_NO_SELFTEST") == "" {
		stPassed, stNotEnc, stBad, stTotal = runSelftest(false)
		if stBad > 0 {
			fmt.Printf("SELFTEST-DISAGREEMENT: %d of the repository's own tests fail or are missing when executed by the engine although the pinned suite passes natively (run `gosym selftest`)\n", stBad)
			broken = true
		}
	}
	sort.Strings(knownLines)
	for _, l := range dedupe(knownLines) {
		fmt.Println(l)
	}
	for _, l := range mismatchLines {
		fmt.Println(l)
		broken = true
	}
	for _, l := range violLines {
		fmt.Println(l)
	}

	// evidence
	var fnList, inList, asList []string
	for k := range functions {
		if strings.Contains(k, "genql") && !strings.Contains(k, "zz_verif") && !strings.Contains(k, ".H_") {
			fnList = append(fnList, k)
		}
	}
	for k := range intrinsics {
		inList = append(inList, k)
	}
	for k := range assumptions {
		asList = append(asList, k)
	}
	// basic-block coverage of the library code (what the harnesses of this
	// property actually executed), for gap analysis
	isTarget := func(file string) bool {
		rel, err := filepath.Rel(repoDir, file)
		if err != nil || strings.HasPrefix(rel, "..") {
			return false
		}
		return !strings.HasPrefix(filepath.Base(rel), "zz_verif") && !strings.HasPrefix(rel, "zz_verif")
	}
	cov := m.BlockCoverage(blocksSeen, isTarget)
	blocksTotal, blocksHit := 0, 0
	var covLines []string
	for _, b := range cov {
		blocksTotal++
		mark := "-"
		if b.Seen {
			blocksHit++
			mark = "+"
		}
		covLines = append(covLines, fmt.Sprintf("%s %s#%d %s", mark, b.Func, b.Index, b.Pos))
	}
	if dir := os.Getenv("VERIF_BLOCKCOV"); dir != "" {
		os.MkdirAll(dir, 0o755)
		os.WriteFile(filepath.Join(dir, prop+"."+[]string{"quick", "thorough"}[tier]+".txt"), []byte(strings.Join(covLines, "\n")+"\n"), 0o644)
	}
	sort.Strings(fnList)
	sort.Strings(inList)
	sort.Strings(asList)
	asList = append(asList, spec.Assumptions...)
	asList = append(asList,
		"go/ssa lowering of /repo's current working tree and the forked x/tools interpreter's instruction semantics",
		"intrinsic models of the listed stdlib functions (concrete arguments call the real function)",
		"cvc5 1.0 verdicts, z3 4.8.12 when cvc5 answers unknown (unknown from both or a timeout is reported as inconclusive, never as success)",
		"counterexamples are only reported after they reproduce against the natively compiled library")
	var decTotal int64
	decMap := map[string]int64{}
	for k := interp.DecKind(0); k < interp.DkNumKinds; k++ {
		decTotal += tot.Decisions[k]
		if tot.Decisions[k] > 0 {
			decMap[k.String()] = tot.Decisions[k]
		}
	}
	if len(samples) == 0 {
		samples = append(samples, "no path completed")
	}
	ev := map[string]any{
		"property_id": prop,
		"tier":        *tierS,
		"seed":        seed,
		"level":       "model_checking",
		"wall_s":      time.Since(t0).Seconds(),
		"violations":  violations,
		"assumptions": asList,
		"coverage": map[string]any{
			"evaluations":         tot.Paths,
			"distinct_nontrivial": tot.PathsNontriv,
			"rule": "one evaluation = one complete symbolic execution path of a harness over the real SSA of /repo (each path stands for all inputs satisfying its path condition); " +
				"non-trivial = the path condition contains at least one solver-decided conjunct; paths are distinct by construction (distinct decision vectors)",
			"states":                                  tot.Paths + decTotal,
			"transitions":                             decTotal + tot.Paths,
			"traces_validated_against_impl":           replays + passReplays + stPassed,
			"repo_unit_tests_passing_inside_engine":   stPassed,
			"repo_unit_tests_pinned":                  stTotal,
			"repo_unit_tests_not_encodable":           stNotEnc,
			"native_replays_of_counterexamples":       replays,
			"native_replays_of_sampled_passing_paths": passReplays,
			"samples":              samples,
			"exhaustive":           false,
			"technique":            "bounded symbolic execution of go/ssa with SMT (cvc5, z3 fallback) path feasibility and assertion discharge",
			"harnesses":            reports,
			"functions_encoded":    fnList,
			"library_basic_blocks": blocksTotal,
			"library_basic_blocks_executed_by_this_check": blocksHit,
			"intrinsics_used":       inList,
			"bounds":                spec.Bounds[tier],
			"outside_the_claim":     spec.Outside,
			"queries":               map[string]any{"feasibility": tot.QFeas, "assertion": tot.QAssert, "answered_from_cache": tot.QCached, "answered_by_cached_model": tot.QModelHit, "unknown": tot.QUnknown},
			"assertions_discharged": tot.AssertsChecked,
			"solver":                solverFromEnv().String(),
			"solver_s":              solverS,
			"decisions_by_kind":     decMap,
			"known_findings":        dedupe(knownLines),
			"engine_mismatch":       mismatchLines,
			"load_s":                m.LoadTime.Seconds(),
			"ssa_build_s":           m.BuildTime.Seconds(),
		},
	}
	evDir := filepath.Join(verifRoot(), "evidence")
	os.MkdirAll(evDir, 0o755)
	eb, _ := json.MarshalIndent(ev, "", " ")
	if err := os.WriteFile(filepath.Join(evDir, prop+".json"), eb, 0o644); err != nil {
		fmt.Fprintln(os.Stderr, err)
		return 3
	}
	fmt.Printf("[%s] tier=%s paths=%d assertions=%d solver=%.1fs wall=%.1fs known=%d violations=%d\n", prop, *tierS, tot.Paths, tot.AssertsChecked, solverS, time.Since(t0).Seconds(), len(dedupe(knownLines)), violations)
	if violations > 0 {
		return 1
	}
	if broken {
		fmt.Printf("CHECK-INCONCLUSIVE property=%s: see the lines above (engine mismatch, incomplete exploration, unsupported path or vacuous harness)\n", prop)
		return 3
	}
	return 0
}

type hrun struct{ fn, pkg string }

func dedupe(in []string) []string {
	seen := map[string]bool{}
	var out []string
	for _, s := range in {
		if !seen[s] {
			seen[s] = true
			out = append(out, s)
		}
	}
	return out
}

func replayCmd(args []string) int {
	if len(args) < 1 {
		fmt.Fprintln(os.Stderr, "usage: gosym replay <file>")
		return 2
	}
	b, err := os.ReadFile(args[0])
	if err != nil {
		fmt.Fprintln(os.Stderr, err)
		return 2
	}
	var rf replayFile
	if err := json.Unmarshal(b, &rf); err != nil {
		fmt.Fprintln(os.Stderr, err)
		return 2
	}
	m := loadMachine()
	rb, err := newReplayBuilder(m)
	if err != nil {
		fmt.Fprintln(os.Stderr, err)
		return 3
	}
	defer rb.close()
	abs, _ := filepath.Abs(args[0])
	out := rb.runReplay(&rf, abs)
	fmt.Println(out.Output)
	if out.Note != "" {
		fmt.Println(out.Note)
	}
	if out.Reproduced {
		fmt.Printf("VIOLATION property=%s replay=%s harness=%s label=%s kind=%s (reproduced natively)\n", rf.Property, abs, rf.Harness, rf.Label, rf.Kind)
		return 1
	}
	fmt.Println("not reproduced")
	return 0
}
