package main

import (
	"fmt"
	"os"
	"path/filepath"
	"sort"
	"strings"
	"time"

	"gosym/interp"
)

const repoDir = "/repo"

func harnessDir() string {
	if d := os.Getenv("VERIF_HARNESS_DIR"); d != "" {
		return d
	}
	exe, _ := os.Executable()
	return filepath.Join(filepath.Dir(filepath.Dir(exe)), "harness")
}

// overlay maps the harness files into /repo as virtual files.
func overlay() (map[string][]byte, map[string]string) {
	ov, real := overlayFiles(os.Getenv("VERIF_WITH_REPO_TESTS") != "")
	return ov, real
}

func overlayFiles(withRepoTests bool) (map[string][]byte, map[string]string) {
	ov := map[string][]byte{}
	real := map[string]string{}
	add := func(sub, dst, prefix string) {
		files, _ := filepath.Glob(filepath.Join(harnessDir(), sub, "*.go"))
		for _, f := range files {
			b, err := os.ReadFile(f)
			if err != nil {
				panic(err)
			}
			virt := filepath.Join(repoDir, dst, prefix+filepath.Base(f))
			ov[virt] = b
			real[virt] = f
		}
	}
	if withRepoTests {
		// the repository's own unit tests, compiled as ordinary files of the package
		files, _ := filepath.Glob(filepath.Join(repoDir, "*_test.go"))
		for _, f := range files {
			b, err := os.ReadFile(f)
			if err != nil {
				panic(err)
			}
			virt := filepath.Join(repoDir, "zz_verif_repotest_"+strings.TrimSuffix(filepath.Base(f), "_test.go")+".go")
			ov[virt] = b
			real[virt] = f
		}
	}
	add("zz_verif", "zz_verif", "")
	add("genql", "", "zz_verif_")
	add("compare", "compare", "zz_verif_")
	add("sanitizer", "sanitizer", "zz_verif_")
	return ov, real
}

func loadMachine() *interp.Machine {
	ov, _ := overlay()
	m, err := interp.Load(repoDir, ov, ".", "./compare", "./sanitizer", "./zz_verif")
	if err != nil {
		fmt.Fprintln(os.Stderr, "load failed:", err)
		os.Exit(3)
	}
	return m
}

func main() {
	if len(os.Args) < 2 {
		fmt.Fprintln(os.Stderr, "usage: gosym run <harness> | check <property> [--tier quick|thorough] | replay <file>")
		os.Exit(2)
	}
	switch os.Args[1] {
	case "run":
		devRun(os.Args[2:])
	case "check":
		os.Exit(checkCmd(os.Args[2:]))
	case "replay":
		os.Exit(replayCmd(os.Args[2:]))
	case "selftest":
		os.Exit(selftestCmd(os.Args[2:]))
	default:
		fmt.Fprintln(os.Stderr, "unknown command", os.Args[1])
		os.Exit(2)
	}
}

func devRun(args []string) {
	name := args[0]
	workers := 16
	m := loadMachine()
	fmt.Printf("load %.1fs build %.1fs\n", m.LoadTime.Seconds(), m.BuildTime.Seconds())
	var found bool
	for _, f := range m.HarnessFuncs("H_") {
		if f.Name() != name {
			continue
		}
		found = true
		cfg := interp.Config{Workers: workers, Solver: solverFromEnv(), Deadline: time.Now().Add(10 * time.Minute)}
		res := m.Explore(f, cfg)
		printResult(res)
	}
	if !found {
		fmt.Println("no such harness; available:")
		for _, f := range m.HarnessFuncs("H_") {
			fmt.Println("  ", f.Name())
		}
	}
}

func solverFromEnv() interp.SolverKind {
	// cvc5 decides the mixed bit-vector / floating-point queries of this code
	// base far faster than z3 (probe: 144 numeric type pairs in 17 s vs.
	// hundreds of 10 s timeouts); z3 is the fallback on unknown
	switch os.Getenv("VERIF_SOLVER") {
	case "z3new":
		return interp.SolverZ3New
	case "z3":
		return interp.SolverZ3
	}
	return interp.SolverCVC5
}

func printResult(res *interp.Result) {
	s := res.Stats
	fmt.Printf("%s: paths=%d nontrivial=%d infeasible=%d steps=%d wall=%.1fs complete=%v\n", res.Harness, s.Paths, s.PathsNontriv, s.Infeasible, s.Steps, res.Wall.Seconds(), res.Complete)
	fmt.Printf("  queries: feas=%d assert=%d cached=%d modelhit=%d unknown=%d solver=%.1fs (%d calls) asserts=%d (trivial %d)\n", s.QFeas, s.QAssert, s.QCached, s.QModelHit, s.QUnknown, res.SolverTime.Seconds(), res.SolverQ, s.AssertsChecked, s.AssertsTrivial)
	if res.SolverQ2 > 0 {
		fmt.Printf("  fallback solver: %d queries %.1fs\n", res.SolverQ2, res.SolverTime2.Seconds())
	}
	fmt.Printf("  decisions:")
	for k := interp.DecKind(0); k < interp.DkNumKinds; k++ {
		if s.Decisions[k] > 0 {
			fmt.Printf(" %s=%d", k, s.Decisions[k])
		}
	}
	fmt.Println()
	var rs []string
	for k, n := range res.Reached {
		rs = append(rs, fmt.Sprintf("%s=%d", k, n))
	}
	sort.Strings(rs)
	fmt.Println("  reached:", strings.Join(rs, " "))
	var fk []string
	for k, n := range res.FailureCounts {
		fk = append(fk, fmt.Sprintf("%s x%d", k, n))
	}
	sort.Strings(fk)
	for i, k := range fk {
		if i >= 40 && os.Getenv("VERIF_ALLGROUPS") == "" {
			fmt.Printf("  ... %d more failure groups\n", len(fk)-i)
			break
		}
		fmt.Println("  FAILURE", k)
	}
	if os.Getenv("VERIF_VERBOSE") != "" {
		for _, f := range res.Failures {
			fmt.Printf("  FAILURE kind=%s label=%s choices=%v detail=%.600s model=%v\n", f.Kind, f.Label, f.Choices, f.Detail, f.Model)
		}
	}
	for _, x := range res.BoundExceed {
		fmt.Println("  BOUND:", x)
	}
	for _, x := range res.Unsupported {
		fmt.Println("  UNSUPPORTED:", x)
	}
	for _, x := range res.EngineErrors {
		fmt.Printf("  ENGINE: %.3000s\n", x)
	}
	for _, x := range res.Inconclusive {
		fmt.Println("  INCONCLUSIVE:", x)
	}
}
