package main

import (
	"strings"

	"gosym/interp"
)

type budget struct {
	interp.Budgets
	SolverTimeoutMs int
	WallS           int
}

type propSpec struct {
	Bounds       [2]map[string]any // quick, thorough
	Outside      []string
	Assumptions  []string
	Incomplete   []string // harness name fragments allowed to stop at a budget (stated as reduced bound)
	Unsupported  []string // harness name fragments allowed to have unsupported paths (stated)
	Budget       func(h string, tier int) budget
}

func defaultBudget(h string, tier int) budget {
	b := budget{Budgets: interp.Budgets{MaxSteps: 3_000_000, MaxDepth: 300, MaxDecisions: 5000}, SolverTimeoutMs: 10000, WallS: 170}
	if tier == 1 {
		b.SolverTimeoutMs = 60000
		b.WallS = 1500
		b.MaxSteps = 20_000_000
	}
	return b
}

func (p propSpec) budget(h string, tier int) budget {
	if p.Budget != nil {
		return p.Budget(h, tier)
	}
	return defaultBudget(h, tier)
}

func (p propSpec) allowIncomplete(h string) bool {
	for _, f := range p.Incomplete {
		if strings.Contains(h, f) {
			return true
		}
	}
	return false
}

func (p propSpec) allowUnsupported(h string) bool {
	for _, f := range p.Unsupported {
		if strings.Contains(h, f) {
			return true
		}
	}
	return false
}

var properties = map[string]propSpec{
	"C05": {
		Bounds: [2]map[string]any{
			{"rows": "0..3", "limit,offset": "any int in [0,2^31)", "sort keys": "≤2"},
			{"rows": "0..4", "limit,offset": "any int in [0,2^31)", "sort keys": "≤2"},
		},
		Outside: []string{"tables above the row bound", "sort inputs above 12 elements (pdqsort paths)", "NaN sort keys"},
	},
	"C15": {
		Bounds: [2]map[string]any{
			{"values": "any bit pattern of each numeric type within the exactly representable range", "strings": "≤2 bytes"},
			{"values": "any bit pattern of each numeric type within the exactly representable range", "strings": "≤3 bytes"},
		},
	},
}
