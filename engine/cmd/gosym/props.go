package main

import (
	"strings"

	"gosym/interp"
)

type budget struct {
	interp.Budgets
	SolverTimeoutMs int
	WallS           int
}

type propSpec struct {
	Bounds      [2]map[string]any // quick, thorough
	Outside     []string
	Assumptions []string
	Incomplete  []string // harness name fragments allowed to stop at a budget (stated as reduced bound)
	Unsupported []string // harness name fragments allowed to have unsupported paths (stated)
	Budget      func(h string, tier int) budget
}

func defaultBudget(h string, tier int) budget {
	b := budget{Budgets: interp.Budgets{MaxSteps: 3_000_000, MaxDepth: 300, MaxDecisions: 5000}, SolverTimeoutMs: 10000, WallS: 400}
	if tier == 1 {
		b.SolverTimeoutMs = 60000
		b.WallS = 2700
		b.MaxSteps = 20_000_000
	}
	return b
}

func (p propSpec) budget(h string, tier int) budget {
	if p.Budget != nil {
		return p.Budget(h, tier)
	}
	return defaultBudget(h, tier)
}

func (p propSpec) allowIncomplete(h string) bool {
	for _, f := range p.Incomplete {
		if strings.Contains(h, f) {
			return true
		}
	}
	return false
}

func (p propSpec) allowUnsupported(h string) bool {
	for _, f := range p.Unsupported {
		if strings.Contains(h, f) {
			return true
		}
	}
	return false
}

var properties = map[string]propSpec{
	"C01": {
		Bounds: [2]map[string]any{
			{"rows": "0..3 (comparison), 0..2 (boolean shapes, IN, BETWEEN, strings), 0..1 (LIKE)", "constants": "any finite non-negative float64 literal / any string ≤2 bytes", "cells": "any non-NaN float64; any byte string ≤2 (≤3 for LIKE subjects over a pattern-derived alphabet)", "predicates": "6 comparison operators × both orientations, negative and computed comparands; 6 boolean shapes × 36 operator pairs; [NOT] IN lists of 1..3 and IN over a root subquery of 0..2 rows; [NOT] BETWEEN (numbers, strings); 30 LIKE patterns × [NOT] plus every LIKE pattern ≤3 bytes over {a b % _ .} against every subject ≤2 bytes over {a b A .}; 6 IS forms; a numeric and a string literal of one spelling in one predicate (6 spellings × 4 forms); 9 spellings of one constant under every operator, IN, NOT IN, BETWEEN; tables given as []any, []Map, []map[string]any; grammar-generated predicates: one or two atoms (comparison, [NOT] IN, [NOT] BETWEEN, IS [NOT] NULL) under NOT / AND / OR on 0..1 rows with a nullable column"},
			{"rows": "one more row in every harness", "constants": "same", "cells": "same", "predicates": "same; grammar: 0..2 rows, and three-atom predicates (p con q) con r on 0..1 rows"},
		},
		Outside: []string{"predicates outside the template list (depth > 3)", "LIKE patterns outside the 30 listed", "negative literals (the parser turns them into unary minus; covered under C02)", "NaN cells", "mixed-kind columns", "IN over a subquery (covered under C07)"},
	},
	"C02": {
		Bounds: [2]map[string]any{
			{"rows": "0..2 (0..1 nested)", "operands": "any non-NaN float64; for DIV % & | ^ << >> ~ |operand| < 2^62, divisor/modulus non-zero, any non-negative shift count", "expressions": "+ - * / on columns and constants, nesting depth 2, 4 precedence/associativity forms, unary - ~ !, CASE with 1-2 WHEN and optional ELSE, 6 key-set forms; 18 literal spellings (leading zeros, exponents, bare fractions, beyond int64) × sign; 15 clause templates over tables with mixed-case / upper-case column names against the lower-case spelling"},
			{"rows": "0..3", "operands": "same", "expressions": "same"},
		},
		Outside: []string{"operands outside ±2^62 for the integer operators", "division by zero", "expression depth > 2", "math.Mod is an uninterpreted function on symbolic operands (except x mod 1, encoded exactly)"},
	},
	"C03": {
		Bounds: [2]map[string]any{
			{"rows": "0..3 (0..2 with two grouping columns / NULLs)", "cells": "any non-NaN float64, optional NULL values", "queries": "GROUP BY 1-2 columns with COUNT(*) COUNT(col) SUM MIN MAX AVG, WHERE, HAVING on COUNT/SUM/MIN, ORDER BY over groups; whole-table aggregates with/without WHERE; same function on two columns; NULL and missing cells in one- and two-column grouping keys; aggregates over the grouping column; mixed-case column names; LIMIT 0..3 OFFSET 0..2 over groups of 3..5 rows with keys from {0,1,2}; grouping cells of mixed kinds (1, '1', TRUE, 'true', NULL, '<nil>', 2, '1.0') in every arrangement of 0..3 rows", "map iteration": "every order at ExecGroupBy's map ranges"},
			{"rows": "0..4 (0..3)", "cells": "same", "queries": "same", "map iteration": "same"},
		},
		Outside: []string{"aggregates over strings", "NaN group keys", "SUM's ParseFloat(Sprintf(x)) round trip is an axiom (shortest-representation guarantee)"},
	},
	"C04": {
		Bounds: [2]map[string]any{
			{"sides": "|l| 0..2, |r| 0..2 (two-column conditions: ≤3 rows in total); PARALLEL: ≤3 rows in total", "keys": "any non-NaN float64 except -0 (opaque key text), or strings ≤1 byte over {a,b} for the single-column conditions", "joins": "JOIN/LEFT/RIGHT × plain/HASH_JOIN/STRAIGHT_JOIN(inner) × 9 ON conditions (=, flipped, two-column in both orders, <, !=, OR, mixed, >=); two-column joins on the integer keys {1,2,3,12,23} whose texts can be confused; mixed-kind keys (1, '1', 2, '2', '1.0', true, 'true') on 2×2 rows under = and <; key columns differing only in letter case; 5 alias pairs (prefixes of one another, multi-letter) × 3 ON orientations on 0..2 × 0..2 rows; three-conjunct ON conditions over three column pairs: every combination of =, <, != in every position × left/right nesting × every type and strategy on 1 × 1 rows", "schedules": "PARALLEL variants: every schedule with ≤1 preemption at synchronisation granularity, race monitor on", "map iteration": "every order at the join loops"},
			{"sides": "|l| 0..3, |r| 0..2; PARALLEL ≤4 rows in total", "keys": "same", "joins": "same; three-conjunct conditions also on 2 × 1 rows (inner, left nesting, automatic and HASH_JOIN)", "schedules": "≤2 preemptions", "map iteration": "same"},
		},
		Outside: []string{"INTO grouping joins", "more than two tables", "NaN keys", "SHA-256 collision freedom and injectivity of base64 are assumed for the hash keys"},
	},
	"C05": {
		Bounds: [2]map[string]any{
			{"rows": "0..3", "limit,offset": "any int in [0,2^63)", "sort keys": "1-2 numeric keys × ASC/DESC/default, one string key ≤2 bytes, nullable numeric key; renamed, computed and shadowing aliases as sort keys (with a window)", "many rows": "13..16 concrete rows, keys (g ASC, v DESC) with ties", "integer keys": "int64/int/uint64 sort keys at 2^53 and MaxInt64-3 in four input orders", "literal spellings": "LIMIT/OFFSET with leading zeros in both spellings on 12..13 rows", "pipeline": "[WHERE] × {plain, DISTINCT, GROUP BY, GROUP BY + HAVING} × [ORDER BY first or second output column ASC/DESC] × [LIMIT 0..3 OFFSET 0..3] on 0..2 rows against a reference evaluator of the whole pipeline"},
			{"rows": "0..4", "limit,offset": "same", "sort keys": "same"},
		},
		Outside: []string{"symbolic sort inputs above 12 elements (13..16 concrete rows run through pdqsort)", "NaN sort keys"},
	},
	"C06": {
		Bounds: [2]map[string]any{
			{"rows": "DISTINCT: 0..3 numeric rows × 2 columns, 0..2 string rows (≤3 bytes over {' ',':','b'}); UNION: branches of 0..2 rows, 2 and 3 branches, UNION/UNION ALL mixes, parenthesised nested unions with their own LIMIT, LIMIT 0..10, LIMIT 0..10 OFFSET 0..5 on UNION and UNION ALL; DISTINCT with LIMIT 0..4 OFFSET 0..4; DISTINCT over a projection of a two-column GROUP BY key (0..3 rows); a windowed plain branch inside UNION [ALL] … LIMIT; ragged rows: DISTINCT * over 0..3 rows each with or without column b, unions of branches with different select lists (narrow first, wide first, three branches)"},
			{"rows": "DISTINCT: 0..4 numeric rows; otherwise same"},
		},
		Outside: []string{"nested values in DISTINCT rows", "-0 cells", "ORDER BY on a union"},
	},
	"C07": {
		Bounds: [2]map[string]any{
			{"documents": "0..2 rows × 2 numeric columns; nested arrays of 0..2 rows", "pipelines": "5 inner (incl. whole-table aggregates) × 5 outer queries × {CTE, aliased derived table, chained CTEs}; a CTE referenced twice, a CTE joined with itself, a three-stage chain; select-list subquery, IN (SELECT), EXISTS (constant and correlated), `<-` root reference; a CTE shadowing a document key, a WITH nested in a derived table (alone and redefining an outer CTE name)"},
			{"documents": "0..3 rows", "pipelines": "same"},
		},
		Outside: []string{"pipelines longer than three stages", "CTE column paths beyond the listed shapes"},
	},
	"C08": {
		Bounds: [2]map[string]any{
			{"shapes": "5 ragged array-of-array shapes (inner lengths 0..2); 4 depth-3 / mixed-depth documents (empty array first, flat array first) nested and through mix=>; 3 documents whose inner arrays are overlapping windows of one 4-row backing array", "queries": "filter, computed projection, mix=> flattening; a mix=> query and the nested query on one document in either order; nested evaluation against per-inner-array evaluation under WithVars (GETVAR, SETVAR), WithConstants and the Postgres dialect option"},
			{"shapes": "same", "queries": "same"}, // (no deeper bound: the shapes are fixed)
		},
		Outside: []string{"depth > 3", "GROUP BY / ORDER BY over nested sources"},
	},
	"C09": {
		Bounds: [2]map[string]any{
			{"indexes": "any int in [0,2^31) (as ReadIndex yields), range bounds any int in [-1,2^31)", "arrays": "length 0..3, ragged arrays of arrays (outer 0..2 × inner 0..2)", "selectors": "27 selector texts covering every documented form on a document with symbolic leaves and a symbolic-length array; 9 selector texts evaluated twice on independent documents and over ragged arrays (selector cache reuse)", "sequences": "every ordered pair of the selector texts (the same text twice included; 5 of them with a segment the parser rejects, first or after valid `::` segments) on one document (selector cache history)", "pipes": "{k|number} over every string ≤3 bytes of {0 1 8 9 . x -} against a decimal-syntax reference, {k|string} over the halves -3..4.5"},
			{"indexes": "same", "arrays": "same", "selectors": "same", "pipes": "strings ≤4 bytes"},
		},
		Outside: []string{"arbitrary byte strings as selectors: tokenisation is three Go regexps, executed natively on concrete text only"},
	},
	"C10": {
		Bounds: [2]map[string]any{
			{"queries": "36 + 32 malformed/unsupported/failing templates (INTO joins with unmatched rows, AWAIT forms, dual, selector functions and pipes in FROM, type-confused operands) × option combinations on a small symbolic document; every built-in function × 14 argument lists (wrong counts, wrong kinds, NULL) × {plain, ASYNC, SPIN, ONCE, SPINASYNC, GLOBAL, SCOPED} × {select list, WHERE}; every listed query (5 of them with a selector the selector parser rejects, 3 CTEs referring to themselves through the navigation marker, 2 with failing AWAIT arguments) executed three times on one Query object with and without WithVars, followed by an ordinary query that must be built and return; single-character mutants (9 replacements or deletion at every position) of every fourth listed query", "preprocessors": "every byte string ≤5 over {\" ' ` \\ [ ] a 0xC3}", "goroutines": "ASYNC/SPIN/SPINASYNC calls of failing and panicking functions, PARALLEL joins with failing ON: every schedule with ≤1 preemption"},
			{"queries": "same; mutants of every listed query", "preprocessors": "≤7 bytes", "goroutines": "same"},
		},
		Outside: []string{"sqlparser.Parse on arbitrary bytes: the generated LALR parser is not encodable, so 'all byte strings as queries' is covered only through the template list"},
	},
	"C11": {
		Bounds: [2]map[string]any{
			{"documents": "0..2 rows × nested arrays of 1..2 rows", "queries": "27 templates (SETVAR/GETVAR/CONSTANT without their option; FUSE of a nested object as first / middle / aliased / repeated select item; filters, subqueries, EXISTS, CTE on SELECT / on UNION / in a derived table / in an IN-subquery, joins, ORDER BY, aggregates, DISTINCT, selector functions) × with/without Wrapped(); 13 joins against a second table with unmatched rows (LEFT/RIGHT/inner, hash / nested loop / STRAIGHT / PARALLEL, INTO, with and without aliases)", "faults": "a user function failing at its k-th invocation, k = none,1,2,3"},
			{"documents": "same", "queries": "same", "faults": "same"},
		},
	},
	"C12": {
		Bounds: [2]map[string]any{
			{"documents": "0..2 rows with one nested row", "queries": "30 templates (FUSE reaching the select list through CASE, IF, ARRAY and a value tuple; NULL/missing operands in arithmetic, CASE, ARRAY, IF, tuples, aggregates and ORDER BY; ASYNC inside CTE, derived table and subquery read through SELECT *) covering every expression form and clause position (tuples, ARRAY, CASE, subqueries, EXISTS, IF/CONCAT, GROUP BY, joins, FIRST/LAST/UNWIND, ASYNC, CTE, derived table, ORDER/LIMIT, SETVAR/GETVAR, DISTINCT, FUSE)", "repetition": "second evaluation on an equal fresh input", "schedules": "≤1 preemption"},
			{"documents": "same", "queries": "same", "repetition": "same", "schedules": "same"},
		},
		Outside: []string{"TIMESTAMP (clock)"},
	},
	"C13": {
		Bounds: [2]map[string]any{
			{"threads": "2 concurrent ExecReader calls (6 selector texts, two of them differing only in a space inside a quoted key; cold and warm cache; against the solo result and the documented value); 2 concurrent queries (7 templates incl. ASYNC, SPINASYNC and a PARALLEL join) on separate and on one shared document; 2 concurrent uses of distinct=>, mix=>, ranges and pipes through ExecReader and through FROM; every query of the C10/C11/C12/C13 lists plus 14 more clause/function forms run by two threads at once on separate documents (one schedule each: unsynchronised package-level state is a race under any schedule)", "schedules": "every schedule with ≤2 (readers) / ≤1 (queries, selector functions) preemptions at synchronisation granularity; vector-clock happens-before race monitor"},
			{"threads": "3 readers; query pairs additionally pair ASYNC, SPINASYNC and the PARALLEL join with themselves", "schedules": "≤2 preemptions (readers, selector functions), ≤1 (queries)"},
		},
		Outside: []string{"more threads", "effects below happens-before (word tearing)"},
	},
	"C14": {
		Bounds: [2]map[string]any{
			{"rows": "0..2", "calls": "UNION ALL branches with SPINASYNC calls and no awaiting column; ASYNC, AWAIT(ASYNC), SPINASYNC+SPIN, ONCE, ASYNC inside a derived table and a subquery, SPINASYNC inside a subquery / derived table / EXISTS / CTE; built-in and user-registered (any letter case) immediate functions × 6 qualifier spellings", "schedules": "≤1 preemption"},
			{"rows": "0..3 (nested forms 0..2)", "calls": "same", "schedules": "≤2 preemptions for 0..2 rows (nested forms: 0..1), ≤1 preemption otherwise"},
		},
		Outside: []string{"completion of SPIN calls (not promised)"},
	},
	"C15": {
		Bounds: [2]map[string]any{
			{"numbers": "all 144 pairs of the 12 Go numeric types, any integer that float64 represents exactly, up to 2^63 / 2^64 (narrow types: every bit pattern), any finite float32, any finite float64", "strings": "any byte strings ≤2 bytes", "number×string": "integers and halves in -3..12.5 against any string ≤2 bytes over [0-9.-a]; float32/float64 quarters and tenths (non-dyadic float32 included), int32, int64, uint16 in -12..11 against any string ≤2 bytes over {0 1 2 9 . -}, against the number's own text and that text extended by one digit; history: a float32 tenth/quarter and the float64 of the same value, an int and its float64 (24 values each), compared in either order against their own texts and any 1-byte string"},
			{"numbers": "same", "strings": "≤3 bytes", "number×string": "same over [0-9.-]"},
		},
		Outside: []string{"integers that float64 does not represent exactly", "NaN"},
	},
	"C16": {
		Bounds: [2]map[string]any{
			{"string arguments": "every byte string ≤3 over {' \\ - # blank a \" ; / * NUL 0xC3}", "scalars": "int64 -11..11 and 7 values at the limits (MinInt64, MaxInt64, ±2^53±1, 2^62), 15 float64 values (MaxFloat64, smallest subnormal, 1e±300, 0.1), ±2^k and both neighbours for k in {24,31,32,52,53,62,63,64,65,127,128}, booleans, NULL × 3 syntactic positions", "templates": "'SELECT '+t+' FROM x' for every t ≤4 bytes over {$ 1 ' \" ` - / * # newline blank a \\}", "comments": "/*body*/$1 for every body ≤3 bytes over {* / blank quote $ 1}", "argument accounting": "missing, unused, $0, repeated, placeholder numbers beyond the integer range; 1, 2, 31..33, 63..66, 128, 129, 257 arguments all used or all but the first / last / middle one", "two placeholders": "two string arguments ≤2 bytes each in three positions"},
			{"string arguments": "≤4 bytes", "scalars": "same", "templates": "≤5 bytes", "argument accounting": "same"},
		},
		Outside: []string{"[]byte and time.Time arguments", "the parser and tokenizer run natively on each concretised text: a symbolic query text is concretised byte by byte (bounded enumeration by the solver)"},
	},
	"C17": {
		Bounds: [2]map[string]any{
			{"texts": "every byte string ≤5 over {\" ' ` [ ] a , blank 0xC3} (and over {\" ' \\ a `}) accepted by the tokenizer, for DoubleQuotesToBackTick; a double-quoted identifier after every prefix ≤3 bytes over {` \\ ' a blank} and ≤5 bytes over {- ' blank newline #} and {- ' tab CR newline}; ≤5 over {[ ] ' \" ` a , 1}, {[ ] - ' blank newline} and {[ ] - ' tab newline} for FixIdiomaticArray", "queries": "3 double-quoted queries, nested bracket arrays, Wrapped() vs {root: input} on 0..2 rows; every ordered pair of the 4 dialect option sets on one text"},
			{"texts": "≤6 bytes", "queries": "same"},
		},
		Outside: []string{"identifier bodies containing backslashes or backticks (the two quoting styles decode them differently)", "the oracle is the library's own MySQL tokenizer, run natively on concretised text"},
	},
	"C18": {
		Bounds: [2]map[string]any{
			{"arrays": "length 0..3 with optional NULLs", "index": "any float64 in (-2^31, 2^31), fractional and negative included", "case maps": "TO_UPPER/TO_LOWER on one- and two-rune strings over 23 runes (Latin digraphs, Georgian, Greek sigma, dotted/dotless i, sharp s, ligatures, Deseret, invalid UTF-8)", "argument spellings": "negative literals and arithmetic as arguments of CONCAT, ARRAY, CHANGETYPE, FIRST, IF, ELEMENTAT", "arity": "21 fixed-arity functions × every other argument count up to arity+2", "functions": "CHANGETYPE of every text ≤3 bytes over {0 1 8 9 x - _ . +} and of halves -2.5..3 to integer/double/string/array (any case) and unknown targets; FIRST LAST ELEMENTAT UNWIND ARRAY IF (NULL branches included) CONCAT (adjacent non-string arguments included) CHANGETYPE DATERANGE CONSTANT DEFAULTKEY FUSE TO_LOWER TO_UPPER (ASCII, ≤2 bytes) and 9 wrong-arity calls"},
			{"arrays": "same", "index": "same", "functions": "same"},
		},
		Outside: []string{"ENCODE/DECODE (gob reflection) and HASH (md5/sha1/sha512 compression functions) have no model: not applicable to this technique", "CHANGETYPE string↔double round trip is the NumText axiom itself"},
	},
	"C19": {
		Bounds: [2]map[string]any{
			{"rows": "1..2 rows with one nested row", "repetition": "10 failing queries issued twice on equal inputs, then a healthy query", "type errors": "a wrong-shaped cell at every row position × 15 clause positions (ORDER BY keys, WHERE, select list, GROUP BY, HAVING, DISTINCT, join ON, IN subquery, aggregates, BETWEEN, CASE, UNION)", "fault positions": "48 templates placing a fault-injecting function among the arguments of SPIN / ASYNC / SPINASYNC / ONCE calls, in WHERE, select list, HAVING, join ON (hash and nested loop), CTE body, derived table, select-list subquery, IN subquery, EXISTS, both UNION branches, RAISE_WHEN, type errors, ORDER BY, GROUP BY", "k": "none, 1..4"},
			{"rows": "1..3", "fault positions": "same", "k": "same"},
		},
	},
	"C20": {
		Bounds: [2]map[string]any{
			{"histories": "every select list of 4 SETVAR/GETVAR operations over 2 keys (256 sequences) × 0..2 rows, followed by a second query sharing the map; every sequence of 3 stores of values of different kinds that print alike (1/'1', true/'true', NULL/'<nil>', symbolic number and string); queries prepared up front and executed later / re-executed / with caller updates in between; every sequence of 3 stores and a read over the 11 key expressions 1, 1.5, '1', 2.5, 1000000, 'k', 0.25, 'K', 'k ', KELVIN SIGN, '1E+06' with the final contents of the caller's map"},
			{"histories": "same"},
		},
	},
}
