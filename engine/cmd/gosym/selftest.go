package main

import (
	"encoding/json"
	"fmt"
	"os"
	"sort"
	"strings"

	"gosym/interp"
)

// selftestCmd runs the repository's own unit tests inside the engine and
// compares the outcomes with the pinned baseline (all must pass).
func selftestCmd(args []string) int {
	passed, notEnc, bad, total := runSelftest(true)
	fmt.Printf("selftest: %d of the repository's %d pinned (sub)tests pass inside the engine, %d not encodable, %d disagreements\n", passed, total, notEnc, bad)
	if bad > 0 {
		return 1
	}
	return 0
}

// runSelftest executes the repository's own unit tests in the engine.
// It returns: (sub)tests passing, tests not encodable (no model for a
// library they call), disagreements (failing or missing although the
// pinned suite passes natively), size of the pinned list.
func runSelftest(verbose bool) (passed, notEncodable, disagreements, total int) {
	ovb, _ := overlayFiles(true)
	m, err := interp.Load(repoDir, ovb, ".", "./compare", "./sanitizer", "./zz_verif")
	if err != nil {
		fmt.Fprintln(os.Stderr, "selftest load failed:", err)
		return 0, 0, 1, 0
	}
	return selftestOn(m, verbose)
}

func selftestOn(m *interp.Machine, verbose bool) (int, int, int, int) {
	var base struct {
		StablePass []string `json:"stable_pass"`
	}
	if b, err := os.ReadFile("/root/.vp/BASELINE.json"); err == nil {
		json.Unmarshal(b, &base)
	}
	want := map[string]bool{}
	for _, n := range base.StablePass {
		want[strings.TrimPrefix(n, "github.com/vedadiyan/genql::")] = true
	}
	got := map[string]bool{}
	notEnc := map[string]bool{}
	bad := 0
	var names []string
	for _, f := range m.HarnessFuncs("Test") {
		if f.Pkg.Pkg.Path() != "github.com/vedadiyan/genql" || f.Signature.Params().Len() != 1 {
			continue
		}
		names = append(names, f.Name())
		outs, log, problems := m.RunUnitTest(f, interp.Config{Solver: solverFromEnv()})
		for _, p := range problems {
			if strings.HasPrefix(p, "unsupported:") {
				if verbose {
					fmt.Printf("NOT-ENCODABLE %s (%.120s)\n", f.Name(), p)
				}
				notEnc[f.Name()] = true
				continue
			}
			fmt.Printf("SELFTEST-ENGINE-PROBLEM %s: %.800s\n", f.Name(), p)
			bad++
		}
		for _, o := range outs {
			if o.Passed {
				got[o.Name] = true
			} else {
				fmt.Printf("SELFTEST-FAIL %s\n", o.Name)
				bad++
			}
		}
		if !verbose {
			continue
		}
		if len(problems) > 0 || os.Getenv("VERIF_VERBOSE") != "" {
			for _, l := range log {
				fmt.Println("   ", l)
			}
		} else {
			for _, o := range outs {
				if !o.Passed {
					for _, l := range log {
						fmt.Println("   ", l)
					}
					break
				}
			}
		}
	}
	missing := 0
	var miss []string
	for n := range want {
		if notEnc[strings.SplitN(n, "/", 2)[0]] {
			continue
		}
		if !got[n] {
			missing++
			miss = append(miss, n)
		}
	}
	sort.Strings(miss)
	for _, n := range miss {
		fmt.Println("SELFTEST-MISSING", n)
	}
	ne := 0
	for n := range want {
		if notEnc[strings.SplitN(n, "/", 2)[0]] {
			ne++
		}
	}
	return len(got), ne, bad + missing, len(want)
}
