module gosym

go 1.23.0

toolchain go1.23.5

require golang.org/x/tools v0.29.0

require github.com/vedadiyan/sqlparser/v2 v2.0.3

require (
	github.com/golang/glog v0.0.0-20160126235308-23def4e6c14b // indirect
	github.com/planetscale/vtprotobuf v0.6.0 // indirect
	github.com/spf13/pflag v1.0.5 // indirect
	golang.org/x/mod v0.22.0 // indirect
	golang.org/x/sync v0.10.0 // indirect
	golang.org/x/sys v0.33.0 // indirect
	google.golang.org/protobuf v1.33.0 // indirect
)
