// Path exploration by decision vectors and re-execution.
//
// A path is a complete execution of the harness steered by a vector of
// decisions. A run that meets a decision beyond its prefix asks the solver
// which alternatives are feasible under the current path condition, takes
// the first and queues the others.

package interp

import (
	"fmt"
	"golang.org/x/tools/go/ssa"
	"sort"
	"strings"
)

type DecKind uint8

const (
	DkBranch DecKind = iota
	DkChoose
	DkIndex
	DkMapKey
	DkStrLen
	DkSched
	DkConcretise
	DkMapOrder
	DkDivZero
	DkNumKinds
)

var decKindNames = [...]string{"branch", "choose", "index", "mapkey", "strlen", "sched", "concretise", "maporder", "divzero"}

func (k DecKind) String() string { return decKindNames[k] }

type WorkItem struct {
	Prefix []int
	Kinds  []DecKind
	Model  Model
}

// InputRec is one entry of the ordered log of harness inputs (Nondet
// values and labelled choices) from which a replay file is produced.
type InputRec struct {
	Kind  string   // f64 | int | bool | byte | str | choose
	Label string   // harness-supplied name
	Vars  []string // solver variables (one per byte for str)
	N     int      // choose: number of alternatives
	Alt   int      // choose: alternative taken
}

type Failure struct {
	Kind      string // assert | panic | crash | deadlock | race | bound | mutation
	Label     string
	Detail    string
	Model     Model
	Inputs    []InputRec
	Decisions []int
	Kinds     []DecKind
	Choices   []ChoiceRec
}

type ChoiceRec struct {
	Label string
	N     int
	Alt   int
}

// pathAbort unwinds the interpreter at the end of a path.
type pathAbort struct {
	why    string // infeasible | bound | unsupported | failure | done
	detail string
}

type Budgets struct {
	MaxSteps     int64
	MaxDepth     int
	MaxDecisions int
	MaxPaths     int64
}

type Stats struct {
	Paths          int64
	PathsNontriv   int64
	Infeasible     int64
	Steps          int64
	Decisions      [DkNumKinds]int64
	QFeas          int64
	QAssert        int64
	QCached        int64
	QModelHit      int64
	QUnknown       int64
	QFallback      int64
	AssertsChecked int64
	AssertsTrivial int64
}

func (s *Stats) add(o *Stats) {
	s.Paths += o.Paths
	s.PathsNontriv += o.PathsNontriv
	s.Infeasible += o.Infeasible
	s.Steps += o.Steps
	for i := range s.Decisions {
		s.Decisions[i] += o.Decisions[i]
	}
	s.QFeas += o.QFeas
	s.QAssert += o.QAssert
	s.QCached += o.QCached
	s.QModelHit += o.QModelHit
	s.QUnknown += o.QUnknown
	s.QFallback += o.QFallback
	s.AssertsChecked += o.AssertsChecked
	s.AssertsTrivial += o.AssertsTrivial
}

type cacheKey struct{ a, b uint64 }
type cacheVal struct {
	res   SatResult
	model Model
}

type Explorer struct {
	lastIntr string                   // last intrinsic entered (diagnostics)
	blocks   map[*ssa.BasicBlock]bool // basic blocks executed by this worker (coverage report)
	solver   *Solver
	solver2  *Solver // started lazily: consulted when the primary answers unknown
	budgets  Budgets

	// per run
	prefix      []int
	prefKinds   []DecKind
	taken       []int
	kinds       []DecKind
	pc          []*Term
	pcKeys      map[TermKey]bool
	bound       Model
	model       Model
	modelValid  bool
	forks       []WorkItem
	nvars       int
	inputs      []InputRec
	choices     []ChoiceRec
	steps       int64
	depth       int
	solverDec   int // number of decisions that had >1 feasible alternative or needed the solver
	failures    []Failure
	reached     map[string]bool
	notes       []string // inconclusive notes for this path
	unknownPC   bool
	assumptions map[string]bool // recorded modelling assumptions exercised on this path
	intrinsics  map[string]bool

	// per worker
	cache map[cacheKey]cacheVal
	stats Stats
}

func newExplorer(s *Solver, b Budgets) *Explorer {
	return &Explorer{solver: s, budgets: b, cache: map[cacheKey]cacheVal{}, blocks: map[*ssa.BasicBlock]bool{}}
}

func (e *Explorer) reset(item WorkItem) {
	e.prefix, e.prefKinds = item.Prefix, item.Kinds
	e.taken, e.kinds = e.taken[:0], e.kinds[:0]
	e.pc = e.pc[:0]
	e.pcKeys = map[TermKey]bool{}
	e.bound = Model{}
	e.model = item.Model
	e.modelValid = false
	e.forks = nil
	e.nvars = 0
	e.inputs = nil
	e.choices = nil
	e.steps, e.depth = 0, 0
	e.solverDec = 0
	e.failures = nil
	e.reached = map[string]bool{}
	e.notes = nil
	e.unknownPC = false
	e.assumptions = map[string]bool{}
	e.intrinsics = map[string]bool{}
}

func (e *Explorer) replaying() bool { return len(e.taken) < len(e.prefix) }

func sanitizeName(s string) string {
	var b strings.Builder
	for i := 0; i < len(s); i++ {
		c := s[i]
		if c >= 'a' && c <= 'z' || c >= 'A' && c <= 'Z' || c >= '0' && c <= '9' || c == '_' {
			b.WriteByte(c)
		} else {
			b.WriteByte('_')
		}
	}
	return b.String()
}

// Fresh creates a new solver variable (Bool or bit-vector of width w).
func (e *Explorer) Fresh(label, kind string, s Sort, w int) *Term {
	e.nvars++
	name := fmt.Sprintf("v%d_%s_%s%d", e.nvars, sanitizeName(label), kind, w)
	return VarT(name, s, w)
}

func (e *Explorer) LogInput(r InputRec) { e.inputs = append(e.inputs, r) }

func (e *Explorer) addPC(c *Term) {
	if c.IsConst() {
		return
	}
	if c.Op == OpAnd {
		for _, a := range c.Args {
			e.addPC(a)
		}
		return
	}
	k := c.Key()
	if e.pcKeys[k] {
		return
	}
	e.pcKeys[k] = true
	e.pc = append(e.pc, c)
	// remember variables pinned to a constant: conditions over pinned
	// variables only are decided by evaluation
	if c.Op == OpEq {
		a, b := c.Args[0], c.Args[1]
		if b.Op == OpVar && a.IsConst() {
			a, b = b, a
		}
		if a.Op == OpVar && b.IsConst() {
			e.bound[a.Name] = b.U
		}
	} else if c.Op == OpVar && c.Sort == SBool {
		e.bound[c.Name] = 1
	} else if c.Op == OpNot && c.Args[0].Op == OpVar {
		e.bound[c.Args[0].Name] = 0
	}
}

// evalBound evaluates c if all its variables are pinned to constants.
func (e *Explorer) evalBound(c *Term) (bool, bool) {
	if len(e.bound) == 0 {
		return false, false
	}
	for _, v := range c.Vars() {
		if _, ok := e.bound[v]; !ok {
			return false, false
		}
	}
	v, ok := Eval(c, e.bound)
	if !ok {
		return false, false
	}
	return v == 1, true
}

// slice returns the conjuncts of the path condition that are transitively
// connected to q through shared variables.
func (e *Explorer) slice(q *Term) []*Term {
	vars := map[string]bool{}
	for _, v := range q.Vars() {
		vars[v] = true
	}
	used := make([]bool, len(e.pc))
	var out []*Term
	for changed := true; changed; {
		changed = false
		for i, c := range e.pc {
			if used[i] {
				continue
			}
			hit := false
			for _, v := range c.Vars() {
				if vars[v] {
					hit = true
					break
				}
			}
			if hit {
				used[i] = true
				changed = true
				out = append(out, c)
				for _, v := range c.Vars() {
					vars[v] = true
				}
			}
		}
	}
	return out
}

func queryKey(asserts []*Term) cacheKey {
	ks := make([]TermKey, len(asserts))
	for i, a := range asserts {
		ks[i] = a.Key()
	}
	sort.Slice(ks, func(i, j int) bool {
		if ks[i].a != ks[j].a {
			return ks[i].a < ks[j].a
		}
		return ks[i].b < ks[j].b
	})
	var h1, h2 uint64 = 17, 31
	for _, k := range ks {
		h1 = mix(h1, k.a)
		h2 = mix(h2, k.b)
	}
	return cacheKey{h1, h2}
}

func evalTrue(t *Term, m Model) bool {
	if m == nil {
		m = Model{}
	}
	v, ok := Eval(t, m)
	return ok && v == 1
}

// sat decides pc ∧ q, using the cached model and the query cache first.
// On Sat the returned model satisfies the whole path condition and q.
func (e *Explorer) sat(q *Term, isAssert bool) (SatResult, Model) {
	if q.IsConst() {
		if q.U == 0 {
			return Unsat, nil
		}
		// pc alone: feasible by construction
		return Sat, e.curModel()
	}
	if m := e.curModel(); m != nil && evalTrue(q, m) {
		e.stats.QModelHit++
		return Sat, m
	}
	asserts := append(e.slice(q), q)
	key := queryKey(asserts)
	var res SatResult
	var sm Model
	if cv, ok := e.cache[key]; ok {
		e.stats.QCached++
		res, sm = cv.res, cv.model
	} else {
		if isAssert {
			e.stats.QAssert++
		} else {
			e.stats.QFeas++
		}
		res, sm = e.check(asserts)
		e.cache[key] = cacheVal{res, sm}
		if res == Unknown {
			e.stats.QUnknown++
		}
	}
	if res != Sat {
		return res, nil
	}
	// merge: variables of the slice from sm, everything else from the current model
	merged := Model{}
	for k, v := range e.curModel() {
		merged[k] = v
	}
	for k, v := range sm {
		merged[k] = v
	}
	return Sat, merged
}

// check discharges one query: the primary solver first, the secondary one
// (a different solver) when the primary answers unknown or times out.
func (e *Explorer) check(asserts []*Term) (SatResult, Model) {
	res, m := e.solver.Check(asserts, true)
	if res != Unknown {
		return res, m
	}
	if e.solver2 == nil {
		k := SolverCVC5
		if e.solver.Kind == SolverCVC5 {
			k = SolverZ3
		}
		e.solver2 = NewSolver(k, e.solver.TimeoutMs*3)
	}
	e.stats.QFallback++
	return e.solver2.Check(asserts, true)
}

// curModel returns a model of the current path condition (may be nil right
// after a prefix replay without a stored model).
func (e *Explorer) curModel() Model {
	if e.modelValid {
		return e.model
	}
	// validate the inherited model against the path condition
	m := e.model
	if m == nil {
		m = Model{}
	}
	ok := true
	for _, c := range e.pc {
		if !evalTrue(c, m) {
			ok = false
			break
		}
	}
	if ok {
		e.model, e.modelValid = m, true
		return m
	}
	// ask the solver for a model of the whole pc
	if len(e.pc) == 0 {
		e.model, e.modelValid = Model{}, true
		return e.model
	}
	e.stats.QFeas++
	res, sm := e.check(e.pc)
	if res == Sat {
		e.model, e.modelValid = sm, true
		return sm
	}
	if res == Unknown {
		e.stats.QUnknown++
		e.unknownPC = true
	}
	return nil
}

func (e *Explorer) recordDecision(kind DecKind, alt int) {
	i := len(e.taken)
	if i < len(e.prefKinds) && e.prefKinds[i] != kind {
		panic(fmt.Sprintf("gosym: nondeterministic replay: decision %d was %v, now %v", i, e.prefKinds[i], kind))
	}
	e.taken = append(e.taken, alt)
	e.kinds = append(e.kinds, kind)
	e.stats.Decisions[kind]++
	if e.budgets.MaxDecisions > 0 && len(e.taken) > e.budgets.MaxDecisions {
		panic(pathAbort{"bound", fmt.Sprintf("decision budget %d exceeded", e.budgets.MaxDecisions)})
	}
}

func (e *Explorer) fork(alt int, kind DecKind, m Model) {
	p := make([]int, len(e.taken)+1)
	copy(p, e.taken)
	p[len(e.taken)] = alt
	k := make([]DecKind, len(e.kinds)+1)
	copy(k, e.kinds)
	k[len(e.kinds)] = kind
	e.forks = append(e.forks, WorkItem{Prefix: p, Kinds: k, Model: m})
}

// DecideCond picks one of the mutually exclusive alternatives conds[i]
// (assumed jointly exhaustive under the path condition).
func (e *Explorer) DecideCond(conds []*Term, kind DecKind) int {
	if e.replaying() {
		alt := e.prefix[len(e.taken)]
		if alt >= len(conds) {
			panic(fmt.Sprintf("gosym: nondeterministic replay: alt %d of %d", alt, len(conds)))
		}
		e.recordDecision(kind, alt)
		e.addPC(conds[alt])
		e.modelValid = false
		if len(e.taken) == len(e.prefix) {
			// the stored model belongs to this point
		}
		return alt
	}
	type fa struct {
		alt int
		m   Model
	}
	var feas []fa
	// syntactic fast path: an alternative that is already a conjunct of the
	// path condition is the only feasible one (alternatives are exclusive)
	for i, c := range conds {
		if !c.IsConst() && e.pcKeys[c.Key()] {
			e.recordDecision(kind, i)
			return i
		}
	}
	for i, c := range conds {
		if !c.IsConst() && e.pcKeys[Not(c).Key()] {
			continue
		}
		if v, ok := e.evalBound(c); ok {
			if v {
				feas = append(feas, fa{i, e.curModel()})
			}
			continue
		}
		res, m := e.sat(c, false)
		switch res {
		case Sat:
			feas = append(feas, fa{i, m})
		case Unknown:
			// keep the branch; the path is flagged so that a pass on it is
			// still a pass (over-approximation) and a failure needs replay
			e.notes = append(e.notes, "feasibility unknown at "+kind.String())
			feas = append(feas, fa{i, nil})
		}
	}
	if len(feas) == 0 {
		panic(pathAbort{"infeasible", "no feasible alternative at " + kind.String()})
	}
	if len(feas) > 1 {
		e.solverDec++
	}
	for _, f := range feas[1:] {
		e.fork(f.alt, kind, f.m)
	}
	e.recordDecision(kind, feas[0].alt)
	e.addPC(conds[feas[0].alt])
	if feas[0].m != nil {
		e.model, e.modelValid = feas[0].m, true
	} else {
		e.modelValid = false
	}
	return feas[0].alt
}

// Branch decides a symbolic condition.
func (e *Explorer) Branch(c *Term) bool {
	if c.IsConst() {
		return c.U == 1
	}
	return e.DecideCond([]*Term{c, Not(c)}, DkBranch) == 0
}

// Choose is an n-way decision without conditions (every alternative is
// explored).
func (e *Explorer) Choose(n int, kind DecKind, label string) int {
	if n <= 0 {
		panic(pathAbort{"infeasible", "empty choice"})
	}
	var alt int
	if e.replaying() {
		alt = e.prefix[len(e.taken)]
		if alt >= n {
			panic(fmt.Sprintf("gosym: nondeterministic replay: alt %d of %d", alt, n))
		}
	} else {
		m := e.curModel()
		for i := 1; i < n; i++ {
			e.fork(i, kind, m)
		}
	}
	e.recordDecision(kind, alt)
	if label != "" {
		e.choices = append(e.choices, ChoiceRec{label, n, alt})
	}
	if kind == DkChoose {
		e.inputs = append(e.inputs, InputRec{Kind: "choose", Label: label, N: n, Alt: alt})
	}
	return alt
}

// Assume adds c to the path condition or ends the path if c is infeasible.
func (e *Explorer) Assume(c *Term) {
	if c.IsConst() {
		if c.U == 0 {
			panic(pathAbort{"infeasible", "assume(false)"})
		}
		return
	}
	if e.replaying() {
		// assumptions inside the replayed prefix were feasible when first met
		e.addPC(c)
		e.modelValid = false
		return
	}
	res, m := e.sat(c, false)
	switch res {
	case Unsat:
		panic(pathAbort{"infeasible", "assumption"})
	case Unknown:
		e.notes = append(e.notes, "assumption feasibility unknown")
		e.addPC(c)
		e.modelValid = false
	case Sat:
		e.addPC(c)
		e.model, e.modelValid = m, true
	}
}

func (e *Explorer) snapshotFailure(kind, label, detail string, m Model) Failure {
	return Failure{
		Kind: kind, Label: label, Detail: detail, Model: m,
		Inputs:    append([]InputRec(nil), e.inputs...),
		Decisions: append([]int(nil), e.taken...),
		Kinds:     append([]DecKind(nil), e.kinds...),
		Choices:   append([]ChoiceRec(nil), e.choices...),
	}
}

// Assert checks that c holds on every input consistent with the path.
func (e *Explorer) Assert(c *Term, label string) bool {
	e.stats.AssertsChecked++
	if c.IsConst() {
		e.stats.AssertsTrivial++
		if c.U == 1 {
			return true
		}
		m := e.curModel()
		e.failures = append(e.failures, e.snapshotFailure("assert", label, "assertion is false on this path", m))
		return false
	}
	if e.replaying() {
		// already checked when this prefix was first explored
		e.addPC(c)
		e.modelValid = false
		return true
	}
	res, m := e.sat(Not(c), true)
	switch res {
	case Unsat:
		return true
	case Unknown:
		e.notes = append(e.notes, "assertion "+label+": solver unknown")
		e.addPC(c)
		e.modelValid = false
		return true
	}
	e.failures = append(e.failures, e.snapshotFailure("assert", label, "counterexample: "+Not(c).SMT(), m))
	// continue under the assumption that the assertion holds
	r2, m2 := e.sat(c, false)
	if r2 == Unsat {
		panic(pathAbort{"failure", "assertion " + label + " fails on every input of this path"})
	}
	e.addPC(c)
	if r2 == Sat {
		e.model, e.modelValid = m2, true
	} else {
		e.modelValid = false
	}
	return false
}

// Fail records a non-assertion failure (panic escaping, crash, deadlock...).
func (e *Explorer) Fail(kind, label, detail string) {
	e.failures = append(e.failures, e.snapshotFailure(kind, label, detail, e.curModel()))
}

// ConcretiseBV enumerates the feasible values of a bit-vector term under
// the path condition (at most cap of them) and makes the choice a decision.
func (e *Explorer) ConcretiseBV(t *Term, cap int, what string) uint64 {
	if t.IsConst() {
		return t.U
	}
	if e.replaying() {
		// the decision index encodes the value directly in replay: we stored
		// the enumerated values in order, so re-enumerate deterministically
	}
	vals, complete := e.enumerate(t, cap, what)
	if !complete {
		// more feasible values than the cap: the first ones are explored (a
		// violation found this way is real), but the path set is incomplete
		e.notes = append(e.notes, fmt.Sprintf("partial concretisation of %s: only %d of more feasible values explored (in %s)", what, len(vals), e.lastIntr)+dbgStack())
	}
	conds := make([]*Term, len(vals))
	for i, v := range vals {
		conds[i] = Eq(t, BvConst(v, t.W))
	}
	alt := e.DecideCond(conds, DkConcretise)
	return vals[alt]
}

// enumerate lists feasible values of t, deterministically (ascending order
// of discovery is not stable across solvers, so values are sorted).
func (e *Explorer) enumerate(t *Term, cap int, what string) ([]uint64, bool) {
	base := e.slice(t)
	key := queryKey(append(append([]*Term{}, base...), t, BvConst(uint64(cap), 64)))
	if cv, ok := e.cache[cacheKey{key.a ^ 0x5555, key.b ^ 0xaaaa}]; ok {
		e.stats.QCached++
		var vals []uint64
		for i := 0; ; i++ {
			v, ok := cv.model[fmt.Sprintf("%d", i)]
			if !ok {
				break
			}
			vals = append(vals, v)
		}
		if cv.res == Unknown && len(vals) == 0 {
			panic(pathAbort{"unsupported", "concretisation of " + what + ": solver unknown"})
		}
		return vals, cv.res != Unknown
	}
	var vals []uint64
	asserts := append([]*Term{}, base...)
	status := Sat
	for {
		e.stats.QFeas++
		res, m := e.check(append(asserts, TrueT))
		if res == Unsat {
			break
		}
		if res == Unknown {
			e.stats.QUnknown++
			status = Unknown
			break
		}
		full := Model{}
		for k, v := range m {
			full[k] = v
		}
		v, ok := Eval(t, full)
		if !ok {
			status = Unknown
			break
		}
		vals = append(vals, v)
		if len(vals) >= cap {
			// is there one more?
			r2, _ := e.check(append(append([]*Term{}, asserts...), Not(Eq(t, BvConst(v, t.W)))))
			if r2 != Unsat {
				status = Unknown
			}
			break
		}
		asserts = append(asserts, Not(Eq(t, BvConst(v, t.W))))
	}
	sort.Slice(vals, func(i, j int) bool { return vals[i] < vals[j] })
	store := Model{}
	for i, v := range vals {
		store[fmt.Sprintf("%d", i)] = v
	}
	e.cache[cacheKey{key.a ^ 0x5555, key.b ^ 0xaaaa}] = cacheVal{status, store}
	if status == Unknown && len(vals) == 0 {
		panic(pathAbort{"unsupported", fmt.Sprintf("concretisation of %s: solver unknown", what)})
	}
	if len(vals) == 0 {
		panic(pathAbort{"infeasible", "concretisation: no value"})
	}
	return vals, status != Unknown
}

func (e *Explorer) Note(s string)       { e.notes = append(e.notes, s) }
func (e *Explorer) Assumption(s string) { e.assumptions[s] = true }
