// Copyright 2013 The Go Authors. All rights reserved.
// Use of this source code is governed by a BSD-style
// license that can be found in the LICENSE file.

package interp

// Emulated functions. Key strings are from Function.String(). The gosym
// intrinsics live in intr_*.go, sched.go, lift.go and verifapi.go; only the
// partial reflect emulation of the original interpreter is kept here.

type externalFn func(fr *frame, args []value) value

var externals = make(map[string]externalFn)

func init() {
	for k, v := range map[string]externalFn{
		"(reflect.Value).Bool":         ext۰reflect۰Value۰Bool,
		"(reflect.Value).CanAddr":      ext۰reflect۰Value۰CanAddr,
		"(reflect.Value).CanInterface": ext۰reflect۰Value۰CanInterface,
		"(reflect.Value).Elem":         ext۰reflect۰Value۰Elem,
		"(reflect.Value).Field":        ext۰reflect۰Value۰Field,
		"(reflect.Value).Float":        ext۰reflect۰Value۰Float,
		"(reflect.Value).Index":        ext۰reflect۰Value۰Index,
		"(reflect.Value).Int":          ext۰reflect۰Value۰Int,
		"(reflect.Value).Interface":    ext۰reflect۰Value۰Interface,
		"(reflect.Value).IsNil":        ext۰reflect۰Value۰IsNil,
		"(reflect.Value).IsValid":      ext۰reflect۰Value۰IsValid,
		"(reflect.Value).Kind":         ext۰reflect۰Value۰Kind,
		"(reflect.Value).Len":          ext۰reflect۰Value۰Len,
		"(reflect.Value).NumField":     ext۰reflect۰Value۰NumField,
		"(reflect.Value).NumMethod":    ext۰reflect۰Value۰NumMethod,
		"(reflect.Value).String":       ext۰reflect۰Value۰String,
		"(reflect.Value).Type":         ext۰reflect۰Value۰Type,
		"(reflect.Value).Uint":         ext۰reflect۰Value۰Uint,
		"(reflect.error).Error":        ext۰reflect۰error۰Error,
		"(reflect.rtype).Bits":         ext۰reflect۰rtype۰Bits,
		"(reflect.rtype).Elem":         ext۰reflect۰rtype۰Elem,
		"(reflect.rtype).Field":        ext۰reflect۰rtype۰Field,
		"(reflect.rtype).In":           ext۰reflect۰rtype۰In,
		"(reflect.rtype).Kind":         ext۰reflect۰rtype۰Kind,
		"(reflect.rtype).NumField":     ext۰reflect۰rtype۰NumField,
		"(reflect.rtype).NumIn":        ext۰reflect۰rtype۰NumIn,
		"(reflect.rtype).NumMethod":    ext۰reflect۰rtype۰NumMethod,
		"(reflect.rtype).NumOut":       ext۰reflect۰rtype۰NumOut,
		"(reflect.rtype).Out":          ext۰reflect۰rtype۰Out,
		"(reflect.rtype).Size":         ext۰reflect۰rtype۰Size,
		"(reflect.rtype).String":       ext۰reflect۰rtype۰String,
		"reflect.New":                  ext۰reflect۰New,
		"reflect.SliceOf":              ext۰reflect۰SliceOf,
		"reflect.TypeOf":               ext۰reflect۰TypeOf,
		"reflect.ValueOf":              ext۰reflect۰ValueOf,
		"reflect.Zero":                 ext۰reflect۰Zero,
	} {
		externals[k] = v
	}
}
