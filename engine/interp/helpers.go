// Frame-level helpers of the symbolic interpreter.

package interp

import (
	"fmt"
	"go/types"
	"strings"

	"golang.org/x/tools/go/ssa"
)

// rtErr is a target-level run-time panic (what Go's runtime would raise).
type rtErr struct{ msg string }

func (e rtErr) Error() string { return "runtime error: " + e.msg }

// equalsV returns x == y as bool or SymBool, flattening string tokens when
// they cannot be aligned.
func (fr *frame) equalsV(t types.Type, x, y value) value {
	return fr.strOp(func(a, b value) value {
		switch t.Underlying().(type) {
		case *types.Map, *types.Signature, *types.Slice:
			return eqnil(t, a, b)
		}
		return symEquals(t, a, b)
	}, x, y)
}

// strOp runs f; if f needs byte-level access to tokenised strings the
// operands are flattened (recursively through interfaces) and f is retried.
func (fr *frame) strOp(f func(a, b value) value, x, y value) (res value) {
	try := func() (r value, nf bool) {
		defer func() {
			if p := recover(); p != nil {
				if _, ok := p.(needFlatten); ok {
					nf = true
					return
				}
				panic(p)
			}
		}()
		return f(x, y), false
	}
	r, nf := try()
	if !nf {
		return r
	}
	x, y = fr.flattenDeep(x), fr.flattenDeep(y)
	r, nf = try()
	if nf {
		panic(pathAbort{"unsupported", "string operation on symbolic digests" + dbgStack()})
	}
	return r
}

func (fr *frame) flattenDeep(v value) value {
	switch v := v.(type) {
	case SymString:
		return fr.i.ex.flattenEq(v)
	case iface:
		if v.t == nil {
			return v
		}
		return iface{t: v.t, v: fr.flattenDeep(v.v)}
	}
	return v
}

// concreteInt concretises an integer value (decision over feasible values).
func (fr *frame) concreteInt(v value, what string) int64 {
	if n, ok := concreteInt(v); ok {
		return n
	}
	si := v.(SymInt)
	u := fr.i.ex.ConcretiseBV(si.T, fr.i.ex.concCap(), what)
	if kindSigned(si.K) {
		return int64(sextU(u, si.T.W))
	}
	return int64(u)
}

// concretiseInRange decides the value of integer v among 0..max and "out of
// range".
func (fr *frame) concretiseInRange(v value, max int) (int, bool) {
	if n, ok := concreteInt(v); ok {
		if n < 0 || n > int64(max) {
			return 0, false
		}
		return int(n), true
	}
	si := v.(SymInt)
	conds := make([]*Term, 0, max+2)
	var anyIn []*Term
	for k := 0; k <= max; k++ {
		c := Eq(si.T, BvConst(uint64(k), si.T.W))
		conds = append(conds, c)
		anyIn = append(anyIn, c)
	}
	conds = append(conds, Not(Or(anyIn...)))
	alt := fr.i.ex.DecideCond(conds, DkIndex)
	if alt > max {
		return 0, false
	}
	return alt, true
}

// index returns a concrete in-range index or raises Go's run-time panic.
func (fr *frame) index(idx value, n int) int {
	if k, ok := concreteInt(idx); ok {
		if k < 0 || k >= int64(n) {
			panic(rtErr{fmt.Sprintf("index out of range [%d] with length %d", k, n)})
		}
		return int(k)
	}
	k, inr := fr.concretiseInRange(idx, n-1)
	if !inr {
		panic(rtErr{fmt.Sprintf("index out of range [symbolic] with length %d", n)})
	}
	return k
}

func (fr *frame) strIndex(x value, idx value) value {
	x = fr.i.ex.flatten(x)
	segs := strSegs(x)
	k := fr.index(idx, len(segs))
	return byteVal(segs[k])
}

// ---- globals and package policy

func isSkippedInit(fn *ssa.Function) bool { return false }

func (i *interpreter) global(g *ssa.Global) *value {
	if r, ok := i.globals[g]; ok {
		return r
	}
	if g.Pkg != nil && !i.m.initRun[g.Pkg.Pkg.Path()] && !i.m.globalAllowed(g) {
		panic(pathAbort{"unsupported", "read of package-level variable " + g.String() + " of a package whose init is not executed"})
	}
	cell := zero(mustDeref(g.Type()))
	p := &cell
	i.globals[g] = p
	return p
}

// inTargetCode reports whether fr executes a function of the library under
// test (not the harness, the support package or the standard library).
func (i *interpreter) inTargetCode(fr *frame) bool {
	fn := fr.fn
	for fn.Parent() != nil {
		fn = fn.Parent()
	}
	if fn.Pkg == nil || !strings.HasPrefix(fn.Pkg.Pkg.Path(), genqlPath) || strings.HasSuffix(fn.Pkg.Pkg.Path(), "/zz_verif") {
		return false
	}
	name := fn.Name()
	if strings.HasPrefix(name, "H_") {
		return false
	}
	file := i.prog.Fset.Position(fn.Pos()).Filename
	return !strings.Contains(file, "zz_verif")
}

func (i *interpreter) mapOrderAt(fr *frame) bool {
	switch i.mapOrder {
	case 0:
		return false
	case 2:
		return true
	}
	fn := fr.fn
	for fn.Parent() != nil {
		fn = fn.Parent()
	}
	return i.mapSites[fn.String()]
}
