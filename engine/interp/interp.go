// Copyright 2013 The Go Authors. All rights reserved.
// Use of this source code is governed by a BSD-style
// license that can be found in the LICENSE file (LICENSE.xtools).

// Package interp is a fork of golang.org/x/tools/go/ssa/interp (v0.29.0)
// turned into a symbolic executor ("gosym"): scalars may be SMT terms,
// branching on a symbolic condition is a decision explored by
// re-execution, maps are insertion ordered, goroutines are scheduled
// cooperatively, and every function outside the packages under test is an
// intrinsic with a stated model.
package interp

import (
	"fmt"
	"go/token"
	"go/types"
	"log"
	"os"
	"runtime"
	"runtime/debug"
	"slices"
	"strings"

	"golang.org/x/tools/go/ssa"
)

type continuation int

const (
	kNext continuation = iota
	kReturn
	kJump
)

// Mode is a bitmask of options affecting the interpreter.
type Mode uint

const (
	DisableRecover Mode = 1 << iota // Disable recover() in target programs; show interpreter crash instead.
	EnableTracing                   // Print a trace of all instructions as they are interpreted.
)

type methodSet map[string]*ssa.Function

// State shared between all interpreted goroutines.
type interpreter struct {
	osArgs             []value                // the value of os.Args
	prog               *ssa.Program           // the SSA program
	globals            map[*ssa.Global]*value // addresses of global variables (immutable)
	mode               Mode                   // interpreter options
	reflectPackage     *ssa.Package           // the fake reflect package
	errorMethods       methodSet              // the method set of reflect.error, which implements the error interface.
	rtypeMethods       methodSet              // the method set of rtype, which implements the reflect.Type interface.
	runtimeErrorString types.Type             // the runtime.errorString type
	sizes              types.Sizes            // the effective type-sizing function
	goroutines         int32                  // atomically updated

	// gosym
	ex               *Explorer
	sched            *scheduler
	m                *Machine
	mapOrder         int                      // 0 insertion order, 1 decisions at listed sites, 2 decisions everywhere, 3 listed sites + one global insertion/reverse decision for all other library ranges
	syncMaps         map[*value]*syncMapState // sync.Map contents by receiver
	syncPools        map[*value][]value       // sync.Pool free lists by receiver
	mapReverse       int                      // mode 3: 0 undecided, 1 insertion order, 2 reverse order
	mapSites         map[string]bool          // function names (fn.String()) whose map ranges are order decisions
	liftMemo         map[uintptr]value
	ptrNames         map[*value]int
	funcsSeen        map[*ssa.Function]bool
	natives          map[*value]any // lifted AST node -> native object (for native accessors)
	harness          *harnessState
	depthIsViolation bool
	tests            map[*value]*tState
	testLog          []string
	testOutcomes     []TestOutcome
}

type deferred struct {
	fn    value
	args  []value
	instr *ssa.Defer
	tail  *deferred
}

type frame struct {
	i                *interpreter
	th               *thread
	depth            int
	caller           *frame
	fn               *ssa.Function
	block, prevBlock *ssa.BasicBlock
	env              map[ssa.Value]value // dynamic values of SSA variables
	locals           []value
	defers           *deferred
	result           value
	panicking        bool
	panic            interface{}
	phitemps         []value // temporaries for parallel phi assignment
}

func (fr *frame) get(key ssa.Value) value {
	switch key := key.(type) {
	case nil:
		// Hack; simplifies handling of optional attributes
		// such as ssa.Slice.{Low,High}.
		return nil
	case *ssa.Function, *ssa.Builtin:
		return key
	case *ssa.Const:
		return constValue(key)
	case *ssa.Global:
		return fr.i.global(key)
	}
	if r, ok := fr.env[key]; ok {
		return r
	}
	panic(fmt.Sprintf("get: no value for %T: %v", key, key.Name()))
}

// runDefer runs a deferred call d.
// It always returns normally, but may set or clear fr.panic.
func (fr *frame) runDefer(d *deferred) {
	if fr.i.mode&EnableTracing != 0 {
		fmt.Fprintf(os.Stderr, "%s: invoking deferred function call\n",
			fr.i.prog.Fset.Position(d.instr.Pos()))
	}
	var ok bool
	defer func() {
		if !ok {
			// Deferred call created a new state of panic.
			r := recover()
			switch r.(type) {
			case targetPanic, rtErr:
			case pathAbort, testFatal:
				panic(r)
			default:
				panic(pathAbort{"engine", fmt.Sprintf("%v (in deferred call)\n%s", r, debug.Stack())})
			}
			fr.panicking = true
			fr.panic = r
		}
	}()
	call(fr.i, fr, d.instr.Pos(), d.fn, d.args)
	ok = true
}

// runDefers executes fr's deferred function calls in LIFO order.
//
// On entry, fr.panicking indicates a state of panic; if
// true, fr.panic contains the panic value.
//
// On completion, if a deferred call started a panic, or if no
// deferred call recovered from a previous state of panic, then
// runDefers itself panics after the last deferred call has run.
//
// If there was no initial state of panic, or it was recovered from,
// runDefers returns normally.
func (fr *frame) runDefers() {
	for d := fr.defers; d != nil; d = d.tail {
		fr.runDefer(d)
	}
	fr.defers = nil
	if fr.panicking {
		panic(fr.panic) // new panic, or still panicking
	}
}

// lookupMethod returns the method set for type typ, which may be one
// of the interpreter's fake types.
func lookupMethod(i *interpreter, typ types.Type, meth *types.Func) *ssa.Function {
	switch typ {
	case rtypeType:
		return i.rtypeMethods[meth.Id()]
	case errorType:
		return i.errorMethods[meth.Id()]
	}
	return i.prog.LookupMethod(typ, meth.Pkg(), meth.Name())
}

// visitInstr interprets a single ssa.Instruction within the activation
// record frame.  It returns a continuation value indicating where to
// read the next instruction from.
func visitInstr(fr *frame, instr ssa.Instruction) continuation {
	switch instr := instr.(type) {
	case *ssa.DebugRef:
		// no-op

	case *ssa.UnOp:
		fr.env[instr] = fr.unop(instr, fr.get(instr.X))

	case *ssa.BinOp:
		fr.env[instr] = fr.binop(instr.Op, instr.X.Type(), fr.get(instr.X), fr.get(instr.Y))

	case *ssa.Call:
		fn, args := prepareCall(fr, &instr.Call)
		fr.env[instr] = call(fr.i, fr, instr.Pos(), fn, args)

	case *ssa.ChangeInterface:
		fr.env[instr] = fr.get(instr.X)

	case *ssa.ChangeType:
		fr.env[instr] = fr.get(instr.X) // (can't fail)

	case *ssa.Convert:
		fr.env[instr] = fr.conv(instr.Type(), instr.X.Type(), fr.get(instr.X))

	case *ssa.SliceToArrayPointer:
		fr.env[instr] = sliceToArrayPointer(instr.Type(), instr.X.Type(), fr.get(instr.X))

	case *ssa.MakeInterface:
		fr.env[instr] = iface{t: instr.X.Type(), v: fr.get(instr.X)}

	case *ssa.Extract:
		fr.env[instr] = fr.get(instr.Tuple).(tuple)[instr.Index]

	case *ssa.Slice:
		fr.env[instr] = fr.slice(fr.get(instr.X), fr.get(instr.Low), fr.get(instr.High), fr.get(instr.Max))

	case *ssa.Return:
		switch len(instr.Results) {
		case 0:
		case 1:
			fr.result = fr.get(instr.Results[0])
		default:
			var res []value
			for _, r := range instr.Results {
				res = append(res, fr.get(r))
			}
			fr.result = tuple(res)
		}
		fr.block = nil
		return kReturn

	case *ssa.RunDefers:
		fr.runDefers()

	case *ssa.Panic:
		panic(targetPanic{fr.get(instr.X)})

	case *ssa.Send:
		panic(pathAbort{"unsupported", "channel send"})

	case *ssa.Store:
		addr := fr.get(instr.Addr).(*value)
		if addr == nil {
			panic(rtErr{"invalid memory address or nil pointer dereference"})
		}
		fr.i.sched.access(fr, addr, true)
		store(mustDeref(instr.Addr.Type()), addr, fr.get(instr.Val))

	case *ssa.If:
		succ := 1
		switch c := fr.get(instr.Cond).(type) {
		case bool:
			if c {
				succ = 0
			}
		case SymBool:
			if fr.i.ex.Branch(c.T) {
				succ = 0
			}
		default:
			panic(fmt.Sprintf("If: unexpected condition %T", c))
		}
		fr.prevBlock, fr.block = fr.block, fr.block.Succs[succ]
		return kJump

	case *ssa.Jump:
		fr.prevBlock, fr.block = fr.block, fr.block.Succs[0]
		return kJump

	case *ssa.Defer:
		fn, args := prepareCall(fr, &instr.Call)
		defers := &fr.defers
		if into := fr.get(instr.DeferStack); into != nil {
			defers = into.(**deferred)
		}
		*defers = &deferred{
			fn:    fn,
			args:  args,
			instr: instr,
			tail:  *defers,
		}

	case *ssa.Go:
		fn, args := prepareCall(fr, &instr.Call)
		fr.i.sched.spawn(fr, instr.Pos(), fn, args)

	case *ssa.MakeChan:
		panic(pathAbort{"unsupported", "make(chan)"})

	case *ssa.Alloc:
		var addr *value
		if instr.Heap {
			// new
			addr = new(value)
			fr.env[instr] = addr
		} else {
			// local
			addr = fr.env[instr].(*value)
		}
		*addr = zero(mustDeref(instr.Type()))

	case *ssa.MakeSlice:
		capv := fr.concreteInt(fr.get(instr.Cap), "make cap")
		lenv := fr.concreteInt(fr.get(instr.Len), "make len")
		if lenv < 0 || capv < lenv || capv > 1<<24 {
			panic(rtErr{"makeslice: len out of range"})
		}
		slice := make([]value, capv)
		tElt := instr.Type().Underlying().(*types.Slice).Elem()
		for i := range slice {
			slice[i] = zero(tElt)
		}
		fr.env[instr] = slice[:lenv]

	case *ssa.MakeMap:
		var reserve int64
		if instr.Reserve != nil {
			reserve = asInt64(fr.get(instr.Reserve))
		}
		if !fitsInt(reserve, fr.i.sizes) {
			panic(fmt.Sprintf("ssa.MakeMap.Reserve value %d does not fit in int", reserve))
		}
		fr.env[instr] = makeMap(instr.Type().Underlying().(*types.Map).Key(), reserve)

	case *ssa.Range:
		fr.env[instr] = fr.rangeIter(fr.get(instr.X), instr.X.Type())

	case *ssa.Next:
		fr.env[instr] = fr.get(instr.Iter).(iter).next()

	case *ssa.FieldAddr:
		p := fr.get(instr.X).(*value)
		if p == nil {
			panic(rtErr{"invalid memory address or nil pointer dereference"})
		}
		fr.env[instr] = &(*p).(structure)[instr.Field]

	case *ssa.Field:
		fr.env[instr] = fr.get(instr.X).(structure)[instr.Field]

	case *ssa.IndexAddr:
		x := fr.get(instr.X)
		idx := fr.get(instr.Index)
		switch x := x.(type) {
		case []value:
			fr.env[instr] = &x[fr.index(idx, len(x))]
		case *value: // *array
			if x == nil {
				panic(rtErr{"invalid memory address or nil pointer dereference"})
			}
			a := (*x).(array)
			fr.env[instr] = &a[fr.index(idx, len(a))]
		default:
			panic(fmt.Sprintf("unexpected x type in IndexAddr: %T", x))
		}

	case *ssa.Index:
		x := fr.get(instr.X)
		idx := fr.get(instr.Index)

		switch x := x.(type) {
		case array:
			fr.env[instr] = x[fr.index(idx, len(x))]
		case string, SymString:
			fr.env[instr] = fr.strIndex(x, idx)
		default:
			panic(fmt.Sprintf("unexpected x type in Index: %T", x))
		}

	case *ssa.Lookup:
		fr.env[instr] = fr.lookup(instr, fr.get(instr.X), fr.get(instr.Index))

	case *ssa.MapUpdate:
		m := fr.get(instr.Map)
		key := fr.get(instr.Key)
		v := fr.get(instr.Value)
		switch m := m.(type) {
		case *omap:
			if m == nil {
				panic(rtErr{"assignment to entry in nil map"})
			}
			fr.i.sched.accessObj(fr, m, true)
			m.insert(fr, key, v)
		default:
			panic(fmt.Sprintf("illegal map type: %T", m))
		}

	case *ssa.TypeAssert:
		fr.env[instr] = typeAssert(fr.i, instr, fr.get(instr.X).(iface))

	case *ssa.MakeClosure:
		var bindings []value
		for _, binding := range instr.Bindings {
			bindings = append(bindings, fr.get(binding))
		}
		fr.env[instr] = &closure{instr.Fn.(*ssa.Function), bindings}

	case *ssa.Phi:
		log.Fatal("unreachable") // phis are processed at block entry

	case *ssa.Select:
		panic(pathAbort{"unsupported", "select"})

	default:
		panic(fmt.Sprintf("unexpected instruction: %T", instr))
	}

	// if val, ok := instr.(ssa.Value); ok {
	// 	fmt.Println(toString(fr.env[val])) // debugging
	// }

	return kNext
}

// prepareCall determines the function value and argument values for a
// function call in a Call, Go or Defer instruction, performing
// interface method lookup if needed.
func prepareCall(fr *frame, call *ssa.CallCommon) (fn value, args []value) {
	v := fr.get(call.Value)
	if call.Method == nil {
		// Function call.
		fn = v
	} else {
		// Interface method invocation.
		recv := v.(iface)
		if recv.t == nil {
			panic(rtErr{"invalid memory address or nil pointer dereference"})
		}
		if f := lookupMethod(fr.i, recv.t, call.Method); f == nil {
			// Unreachable in well-typed programs.
			panic(fmt.Sprintf("method set for dynamic type %v does not contain %s", recv.t, call.Method))
		} else {
			fn = f
		}
		args = append(args, recv.v)
	}
	for _, arg := range call.Args {
		args = append(args, fr.get(arg))
	}
	return
}

// call interprets a call to a function (function, builtin or closure)
// fn with arguments args, returning its result.
// callpos is the position of the callsite.
func call(i *interpreter, caller *frame, callpos token.Pos, fn value, args []value) value {
	switch fn := fn.(type) {
	case *ssa.Function:
		if fn == nil {
			panic(rtErr{"invalid memory address or nil pointer dereference"}) // nil of func type
		}
		return callSSA(i, caller, callpos, fn, args, nil)
	case *closure:
		return callSSA(i, caller, callpos, fn.Fn, args, fn.Env)
	case *ssa.Builtin:
		return callBuiltin(caller, callpos, fn, args)
	case nativeFunc:
		return fn(caller, args)
	}
	panic(fmt.Sprintf("cannot call %T", fn))
}

func loc(fset *token.FileSet, pos token.Pos) string {
	if pos == token.NoPos {
		return ""
	}
	return " at " + fset.Position(pos).String()
}

// callSSA interprets a call to function fn with arguments args,
// and lexical environment env, returning its result.
// callpos is the position of the callsite.
func callSSA(i *interpreter, caller *frame, callpos token.Pos, fn *ssa.Function, args []value, env []value) value {
	if i.mode&EnableTracing != 0 {
		fset := fn.Prog.Fset
		// TODO(adonovan): fix: loc() lies for external functions.
		fmt.Fprintf(os.Stderr, "Entering %s%s.\n", fn, loc(fset, fn.Pos()))
		suffix := ""
		if caller != nil {
			suffix = ", resuming " + caller.fn.String() + loc(fset, callpos)
		}
		defer fmt.Fprintf(os.Stderr, "Leaving %s%s.\n", fn, suffix)
	}
	fr := &frame{
		i:      i,
		caller: caller, // for panic/recover
		fn:     fn,
	}
	if caller != nil {
		fr.th = caller.th
		fr.depth = caller.depth + 1
	} else {
		fr.th = i.sched.cur
	}
	if b := i.ex.budgets.MaxDepth; b > 0 && fr.depth > b {
		if i.depthIsViolation {
			i.ex.Fail("bound", "unbounded-recursion", fmt.Sprintf("call depth %d exceeded in %s: unbounded recursion overflows the goroutine stack (fatal)", b, fn))
			panic(pathAbort{"failure", "unbounded recursion"})
		}
		panic(pathAbort{"bound", fmt.Sprintf("call depth %d exceeded in %s", b, fn)})
	}
	if fn.Parent() == nil {
		name := fn.String()
		if ext := externals[name]; ext != nil {
			i.ex.intrinsics[name] = true
			i.ex.lastIntr = name + " called from " + callerName(caller)
			i.recordReceiverAccess(fr, name, args)
			return ext(fr, args)
		}
		if o := fn.Origin(); o != nil {
			if ext := externals[o.String()]; ext != nil {
				i.ex.intrinsics[o.String()] = true
				return ext(fr, args)
			}
		}
		if i.m.skipInit(fn) {
			return nil
		}
		if !i.m.interpretable(fn) {
			// generic bridge: the real function on concrete(-ised) arguments
			if ext := nativeBridge(name); ext != nil {
				return ext(fr, args)
			}
			panic(pathAbort{"unsupported", "no intrinsic for external function " + name})
		}
		if fn.Blocks == nil {
			panic(pathAbort{"unsupported", "no code for function: " + name})
		}
	}
	i.funcsSeen[fn] = true

	// generic function body?
	if fn.TypeParams().Len() > 0 && len(fn.TypeArgs()) == 0 {
		panic("interp requires ssa.BuilderMode to include InstantiateGenerics to execute generics")
	}

	fr.env = make(map[ssa.Value]value)
	fr.block = fn.Blocks[0]
	fr.locals = make([]value, len(fn.Locals))
	for i, l := range fn.Locals {
		fr.locals[i] = zero(mustDeref(l.Type()))
		fr.env[l] = &fr.locals[i]
	}
	for i, p := range fn.Params {
		fr.env[p] = args[i]
	}
	for i, fv := range fn.FreeVars {
		fr.env[fv] = env[i]
	}
	for fr.block != nil {
		runFrame(fr)
	}
	// Destroy the locals to avoid accidental use after return.
	for i := range fn.Locals {
		fr.locals[i] = bad{}
	}
	return fr.result
}

// runFrame executes SSA instructions starting at fr.block and
// continuing until a return, a panic, or a recovered panic.
//
// After a panic, runFrame panics.
//
// After a normal return, fr.result contains the result of the call
// and fr.block is nil.
//
// A recovered panic in a function without named return parameters
// (NRPs) becomes a normal return of the zero value of the function's
// result type.
//
// After a recovered panic in a function with NRPs, fr.result is
// undefined and fr.block contains the block at which to resume
// control.
func runFrame(fr *frame) {
	defer func() {
		if fr.block == nil {
			return // normal return
		}
		r := recover()
		switch r := r.(type) {
		case pathAbort:
			panic(r) // end of path: unwind without running target defers
		case testFatal:
			panic(r) // t.Fatal in a self-test: unwinds to the test driver
		case targetPanic, rtErr:
			// target-level panic
		case runtime.Error:
			// a Go runtime error inside the engine itself is an engine defect
			// or an unsupported construct, never a target panic
			panic(pathAbort{"engine", fmt.Sprintf("%v in %s\n%s", r, fr.fn, debug.Stack())})
		default:
			panic(pathAbort{"engine", fmt.Sprintf("%v in %s\n%s", r, fr.fn, debug.Stack())})
		}
		fr.panicking = true
		fr.panic = r
		fr.runDefers()
		fr.block = fr.fn.Recover
	}()

	for {
		if fr.i.mode&EnableTracing != 0 {
			fmt.Fprintf(os.Stderr, ".%s:\n", fr.block)
		}

		fr.i.ex.blocks[fr.block] = true
		nonPhis := executePhis(fr)
		for _, instr := range nonPhis {
			if fr.i.mode&EnableTracing != 0 {
				if v, ok := instr.(ssa.Value); ok {
					fmt.Fprintln(os.Stderr, "\t", v.Name(), "=", instr)
				} else {
					fmt.Fprintln(os.Stderr, "\t", instr)
				}
			}
			ex := fr.i.ex
			ex.steps++
			if ex.steps > ex.budgets.MaxSteps {
				panic(pathAbort{"bound", fmt.Sprintf("step budget %d exceeded in %s", ex.budgets.MaxSteps, fr.fn)})
			}
			if visitInstr(fr, instr) == kReturn {
				return
			}
			// Inv: kNext (continue) or kJump (last instr)
		}
	}
}

// executePhis executes the phi-nodes at the start of the current
// block and returns the non-phi instructions.
func executePhis(fr *frame) []ssa.Instruction {
	firstNonPhi := -1
	for i, instr := range fr.block.Instrs {
		if _, ok := instr.(*ssa.Phi); !ok {
			firstNonPhi = i
			break
		}
	}
	// Inv: 0 <= firstNonPhi; every block contains a non-phi.

	nonPhis := fr.block.Instrs[firstNonPhi:]
	if firstNonPhi > 0 {
		phis := fr.block.Instrs[:firstNonPhi]
		// Execute parallel assignment of phis.
		//
		// See "the swap problem" in Briggs et al's "Practical Improvements
		// to the Construction and Destruction of SSA Form" for discussion.
		predIndex := slices.Index(fr.block.Preds, fr.prevBlock)
		fr.phitemps = fr.phitemps[:0]
		for _, phi := range phis {
			phi := phi.(*ssa.Phi)
			if fr.i.mode&EnableTracing != 0 {
				fmt.Fprintln(os.Stderr, "\t", phi.Name(), "=", phi)
			}
			fr.phitemps = append(fr.phitemps, fr.get(phi.Edges[predIndex]))
		}
		for i, phi := range phis {
			fr.env[phi.(*ssa.Phi)] = fr.phitemps[i]
		}
	}
	return nonPhis
}

// doRecover implements the recover() built-in.
func doRecover(caller *frame) value {
	// recover() must be exactly one level beneath the deferred
	// function (two levels beneath the panicking function) to
	// have any effect.  Thus we ignore both "defer recover()" and
	// "defer f() -> g() -> recover()".
	if caller.i.mode&DisableRecover == 0 &&
		caller != nil && !caller.panicking &&
		caller.caller != nil && caller.caller.panicking {
		caller.caller.panicking = false
		p := caller.caller.panic
		caller.caller.panic = nil

		// TODO(adonovan): support runtime.Goexit.
		switch p := p.(type) {
		case targetPanic:
			// The target program explicitly called panic().
			return p.v
		case rtErr:
			// The target raised a run-time panic.
			return iface{caller.i.runtimeErrorString, p.msg}
		default:
			panic(fmt.Sprintf("unexpected panic type %T in target call to recover()", p))
		}
	}
	return iface{}
}

// recordReceiverAccess tells the race monitor about the memory effect of an
// intrinsic method on a stateful standard-library object (the intrinsic
// bypasses the instrumented loads and stores of the real method body).
func (i *interpreter) recordReceiverAccess(fr *frame, name string, args []value) {
	if len(args) == 0 || !strings.HasPrefix(name, "(*") {
		return
	}
	var stateful bool
	for _, p := range []string{"(*bytes.Buffer).", "(*strings.Builder).", "(*crypto/sha256.digest)."} {
		if strings.HasPrefix(name, p) {
			stateful = true
		}
	}
	if !stateful {
		return
	}
	recv, ok := args[0].(*value)
	if !ok || recv == nil {
		return
	}
	m := name[strings.LastIndexByte(name, '.')+1:]
	write := strings.HasPrefix(m, "Write") || m == "Reset" || m == "Grow" || m == "Truncate" || strings.HasPrefix(m, "Read") || m == "Next" || strings.HasPrefix(m, "Unread")
	i.sched.access(fr, recv, write)
}

func callerName(fr *frame) string {
	if fr == nil || fr.fn == nil {
		return "?"
	}
	return fr.fn.String()
}
