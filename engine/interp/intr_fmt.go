// fmt.Sprintf / fmt.Errorf over interpreter values (possibly symbolic).
//
// The formatter follows package fmt for the verbs genql uses (%v %s %d %f
// %T %q %x): Error()/String() methods are honoured, maps print with sorted
// keys, nil prints as <nil>. Symbolic floats print as opaque NumText
// tokens, symbolic ints as IntText tokens. A value graph deeper than
// fmtMaxDepth is reported as the fatal stack overflow that the real fmt
// suffers on a cyclic value.

package interp

import (
	"fmt"
	"go/types"
	"sort"
	"strconv"
	"strings"
)

const fmtMaxDepth = 40

type fmtCtx struct {
	fr *frame
}

func init() {
	externals["fmt.Sprintf"] = func(fr *frame, args []value) value {
		return fr.sprintf(args[0], args[1].([]value))
	}
	externals["fmt.Errorf"] = func(fr *frame, args []value) value {
		s := fr.sprintf(args[0], args[1].([]value))
		return fr.i.newError(s)
	}
	externals["fmt.Sprint"] = func(fr *frame, args []value) value {
		var segs []Seg
		for k, a := range args[0].([]value) {
			if k > 0 {
				// Sprint adds spaces between operands when neither is a string
				_, s1 := a.(iface).v.(string)
				_, s0 := args[0].([]value)[k-1].(iface).v.(string)
				if !s1 && !s0 {
					segs = append(segs, byteSeg(' '))
				}
			}
			segs = append(segs, fr.fmtValue(a, 'v', 0, false, false)...)
		}
		return mkString(segs)
	}
	fprint := func(fr *frame, w value, text value) value {
		it := w.(iface)
		if it.t == nil {
			panic(rtErr{"invalid memory address or nil pointer dereference"})
		}
		name := ""
		if pt, ok := it.t.(*types.Pointer); ok {
			if nt, ok := pt.Elem().(*types.Named); ok && nt.Obj().Pkg() != nil {
				name = nt.Obj().Pkg().Path() + "." + nt.Obj().Name()
			}
		}
		switch name {
		case "bytes.Buffer", "strings.Builder":
			return externals["(*"+name+").WriteString"](fr, []value{it.v, text})
		}
		// any other io.Writer: call its Write method through the interpreter
		ms := fr.i.prog.MethodSets.MethodSet(it.t)
		sel := ms.Lookup(nil, "Write")
		if sel == nil {
			panic(pathAbort{"unsupported", "fmt.Fprint to a writer without Write"})
		}
		fn := fr.i.prog.LookupMethod(it.t, nil, "Write")
		return call(fr.i, fr, 0, fn, []value{it.v, stringToBytes(fr.i.ex.flatten(text))})
	}
	externals["fmt.Fprintf"] = func(fr *frame, args []value) value {
		return fprint(fr, args[0], fr.sprintf(args[1], args[2].([]value)))
	}
	externals["fmt.Fprint"] = func(fr *frame, args []value) value {
		return fprint(fr, args[0], externals["fmt.Sprint"](fr, []value{args[1]}))
	}
	externals["fmt.Fprintln"] = func(fr *frame, args []value) value {
		return fprint(fr, args[0], externals["fmt.Sprintln"](fr, []value{args[1]}))
	}
	externals["fmt.Sprintln"] = func(fr *frame, args []value) value {
		var segs []Seg
		for k, a := range args[0].([]value) {
			if k > 0 {
				segs = append(segs, byteSeg(' '))
			}
			segs = append(segs, fr.fmtValue(a, 'v', 0, false, false)...)
		}
		segs = append(segs, byteSeg('\n'))
		return mkString(segs)
	}
	externals["errors.New"] = func(fr *frame, args []value) value {
		return fr.i.newError(args[0])
	}
}

func (i *interpreter) newError(msg value) value {
	pkg := i.prog.ImportedPackage("errors")
	if pkg == nil {
		panic(pathAbort{"engine", "errors package not loaded"})
	}
	t := pkg.Type("errorString").Type()
	var s value = structure{msg}
	return iface{t: types.NewPointer(t), v: &s}
}

func (fr *frame) sprintf(format value, args []value) value {
	f, ok := format.(string)
	if !ok {
		panic(pathAbort{"unsupported", "symbolic format string"})
	}
	var segs []Seg
	argi := 0
	for i := 0; i < len(f); i++ {
		c := f[i]
		if c != '%' {
			segs = append(segs, byteSeg(c))
			continue
		}
		i++
		if i >= len(f) {
			segs = append(segs, strSegs("%!(NOVERB)")...)
			break
		}
		plus, sharp := false, false
		flagStart := i
		for i < len(f) && strings.IndexByte("+-# 0", f[i]) >= 0 {
			if f[i] == '+' {
				plus = true
			}
			if f[i] == '#' {
				sharp = true
			}
			i++
		}
		for i < len(f) && (f[i] >= '0' && f[i] <= '9' || f[i] == '.') {
			i++
		}
		if i >= len(f) {
			segs = append(segs, strSegs("%!(NOVERB)")...)
			break
		}
		verb := f[i]
		spec := f[flagStart-1 : i+1]
		if verb == '%' {
			segs = append(segs, byteSeg('%'))
			continue
		}
		if argi >= len(args) {
			segs = append(segs, strSegs("%!"+string(verb)+"(MISSING)")...)
			continue
		}
		a := args[argi]
		argi++
		if len(spec) > 2 && !(len(spec) == 3 && (plus || sharp)) {
			// width/precision flags: only on concrete operands
			n, ok := fr.toNative(a)
			if !ok {
				panic(pathAbort{"unsupported", "format " + spec + " of a symbolic value"})
			}
			segs = append(segs, strSegs(fmt.Sprintf(spec, n))...)
			continue
		}
		segs = append(segs, fr.fmtValue(a, verb, 0, plus, sharp)...)
	}
	if argi < len(args) {
		segs = append(segs, strSegs("%!(EXTRA ")...)
		for k := argi; k < len(args); k++ {
			if k > argi {
				segs = append(segs, strSegs(", ")...)
			}
			segs = append(segs, strSegs(fr.typeString(args[k]))...)
			segs = append(segs, byteSeg('='))
			segs = append(segs, fr.fmtValue(args[k], 'v', 0, false, false)...)
		}
		segs = append(segs, byteSeg(')'))
	}
	return mkString(segs)
}

// toNative converts simple concrete scalars to native Go values.
func (fr *frame) toNative(v value) (any, bool) {
	if it, ok := v.(iface); ok {
		if it.t == nil {
			return nil, true
		}
		v = it.v
	}
	switch v := v.(type) {
	case bool, int, int8, int16, int32, int64, uint, uint8, uint16, uint32, uint64, uintptr, float32, float64, string:
		return v, true
	}
	return nil, false
}

func qualifier(p *types.Package) string { return p.Name() }

func typeStr(t types.Type) string {
	s := types.TypeString(t, qualifier)
	s = strings.ReplaceAll(s, "any", "interface {}")
	return s
}

func (fr *frame) typeString(v value) string {
	it, ok := v.(iface)
	if !ok {
		return fmt.Sprintf("%T", v)
	}
	if it.t == nil {
		return "<nil>"
	}
	return typeStr(it.t)
}

func (fr *frame) hasMethod(t types.Type, name string) *types.Func {
	ms := fr.i.prog.MethodSets.MethodSet(t)
	sel := ms.Lookup(nil, name)
	if sel == nil {
		// unexported lookups need the package; Error/String are exported
		return nil
	}
	f, _ := sel.Obj().(*types.Func)
	if f == nil {
		return nil
	}
	sig := f.Type().(*types.Signature)
	if sig.Params().Len() != 0 || sig.Results().Len() != 1 {
		return nil
	}
	if b, ok := sig.Results().At(0).Type().Underlying().(*types.Basic); !ok || b.Kind() != types.String {
		return nil
	}
	return f
}

func (fr *frame) badVerb(verb byte, t types.Type, inner []Seg) []Seg {
	out := strSegs("%!" + string(verb) + "(" + typeStr(t) + "=")
	out = append(out, inner...)
	return append(out, byteSeg(')'))
}

// fmtValue formats an interface value.
func (fr *frame) fmtValue(v value, verb byte, depth int, plus, sharp bool) []Seg {
	it, ok := v.(iface)
	if !ok {
		panic(fmt.Sprintf("fmtValue: not an interface: %T", v))
	}
	if verb == 'T' {
		return strSegs(fr.typeString(it))
	}
	if it.t == nil {
		if verb == 'v' {
			return strSegs("<nil>")
		}
		return strSegs("%!" + string(verb) + "(<nil>)")
	}
	return fr.fmtTyped(it.t, it.v, verb, depth, plus, sharp)
}

func (fr *frame) fmtTyped(t types.Type, v value, verb byte, depth int, plus, sharp bool) []Seg {
	if depth > fmtMaxDepth {
		fr.i.ex.Fail("crash", "fmt-cycle", "formatting a cyclic value: package fmt recurses until the goroutine stack overflows (fatal, not recoverable)")
		panic(pathAbort{"failure", "fmt on cyclic value"})
	}
	// Error() / String() methods
	switch verb {
	case 'v', 's', 'q', 'x', 'X':
		if !sharp {
			for _, name := range []string{"Error", "String"} {
				if m := fr.hasMethod(t, name); m != nil {
					if _, isIface := t.Underlying().(*types.Interface); isIface {
						break
					}
					fn := fr.i.prog.LookupMethod(t, m.Pkg(), m.Name())
					if fn == nil {
						continue
					}
					if p, ok := v.(*value); ok && p == nil {
						if _, isPtr := t.Underlying().(*types.Pointer); isPtr {
							return strSegs("<nil>")
						}
					}
					res := call(fr.i, fr, 0, fn, []value{v})
					return fr.fmtString(res, verb)
				}
			}
		}
	}
	switch ut := t.Underlying().(type) {
	case *types.Basic:
		switch {
		case ut.Kind() == types.Bool:
			switch verb {
			case 'v', 't':
			default:
				return fr.badVerb(verb, t, fr.fmtTyped(t, v, 'v', depth, false, false))
			}
			switch b := v.(type) {
			case bool:
				return strSegs(strconv.FormatBool(b))
			case SymBool:
				if fr.i.ex.Branch(b.T) {
					return strSegs("true")
				}
				return strSegs("false")
			}
		case ut.Info()&types.IsInteger != 0:
			if sharp && verb == 'v' && ut.Info()&types.IsUnsigned != 0 {
				panic(pathAbort{"unsupported", "%#v of an unsigned integer (hexadecimal Go syntax)"})
			}
			if si, ok := v.(SymInt); ok && !kindSigned(si.K) && kindWidth(si.K) == 64 {
				// no signed 64-bit token covers the full unsigned range: bounded concretisation
				v = fr.i.ex.ConcretiseBV(si.T, 24, "uint64 text")
			}
			switch verb {
			case 'v', 'd':
				return intSegs(v)
			case 's', 'q', 'f', 'g', 'e':
				if verb == 'q' {
					break
				}
				return fr.badVerb(verb, t, intSegs(v))
			}
			n, ok := fr.toNative(v)
			if !ok {
				panic(pathAbort{"unsupported", "%" + string(verb) + " of a symbolic integer"})
			}
			return strSegs(fmt.Sprintf("%"+string(verb), n))
		case ut.Info()&types.IsFloat != 0:
			if sf, ok := v.(SymFloat); ok && sf.K == types.Float32 && (verb == 'v' || verb == 'g') {
				// no opaque token for 32-bit texts: bounded concretisation
				f := fr.i.ex.concretiseF64(FpToFp(sf.T, SF64))
				return strSegs(strconv.FormatFloat(f, 'g', -1, 32))
			}
			switch verb {
			case 'v', 'g':
				return numSegs(v)
			case 's', 'd', 'q', 'x':
				return fr.badVerb(verb, t, numSegs(v))
			}
			if sf, ok := v.(SymFloat); ok {
				f := fr.i.ex.concretiseF64(FpToFp(sf.T, SF64))
				return strSegs(fmt.Sprintf("%"+string(verb), f))
			}
			return strSegs(fmt.Sprintf("%"+string(verb), v))
		case ut.Kind() == types.String:
			if sharp && verb == 'v' {
				return fr.fmtString(v, 'q') // Go syntax: a quoted string
			}
			return fr.fmtString(v, verb)
		case ut.Kind() == types.UnsafePointer:
			return strSegs("0x0")
		}
	case *types.Pointer:
		p := v.(*value)
		if p == nil {
			if verb == 'v' {
				return strSegs("<nil>")
			}
			return strSegs("%!" + string(verb) + "(" + typeStr(t) + "=<nil>)")
		}
		if depth == 0 {
			switch ut.Elem().Underlying().(type) {
			case *types.Struct, *types.Array, *types.Slice, *types.Map:
				out := []Seg{byteSeg('&')}
				return append(out, fr.fmtTyped(ut.Elem(), *p, verb, depth+1, plus, sharp)...)
			}
		}
		return strSegs(fr.ptrText(p))
	case *types.Map:
		m := v.(*omap)
		out := strSegs("map[")
		if m != nil {
			idx := make([]int, len(m.keys))
			for i := range idx {
				idx[i] = i
			}
			keyStr := make([]string, len(m.keys))
			for i, k := range m.keys {
				ks, ok := k.(string)
				if !ok {
					if n, isInt := concreteInt(k); isInt {
						ks = fmt.Sprintf("%020d", n+1<<62)
					} else {
						panic(pathAbort{"unsupported", fmt.Sprintf("%%v of a map with symbolic or composite keys (%T)", k)})
					}
				}
				keyStr[i] = ks
			}
			sort.SliceStable(idx, func(a, b int) bool { return keyStr[idx[a]] < keyStr[idx[b]] })
			for n, i := range idx {
				if n > 0 {
					out = append(out, byteSeg(' '))
				}
				out = append(out, fr.fmtElem(ut.Key(), m.keys[i], verb, depth+1, plus, sharp)...)
				out = append(out, byteSeg(':'))
				out = append(out, fr.fmtElem(ut.Elem(), m.vals[i], verb, depth+1, plus, sharp)...)
			}
		}
		return append(out, byteSeg(']'))
	case *types.Slice:
		if rb, ok := v.(ropeBytes); ok {
			if verb == 's' {
				return rb.R.S
			}
			panic(pathAbort{"unsupported", "%v of bytes with opaque tokens"})
		}
		s := v.([]value)
		if b, ok := ut.Elem().Underlying().(*types.Basic); ok && b.Kind() == types.Byte && (verb == 's' || verb == 'q' || verb == 'x') {
			return fr.fmtString(bytesToString(s), verb)
		}
		if s == nil && sharp {
			return strSegs(typeStr(t) + "(nil)")
		}
		out := []Seg{byteSeg('[')}
		for i, e := range s {
			if i > 0 {
				out = append(out, byteSeg(' '))
			}
			out = append(out, fr.fmtElem(ut.Elem(), e, verb, depth+1, plus, sharp)...)
		}
		return append(out, byteSeg(']'))
	case *types.Array:
		a := v.(array)
		out := []Seg{byteSeg('[')}
		for i, e := range a {
			if i > 0 {
				out = append(out, byteSeg(' '))
			}
			out = append(out, fr.fmtElem(ut.Elem(), e, verb, depth+1, plus, sharp)...)
		}
		return append(out, byteSeg(']'))
	case *types.Struct:
		st := v.(structure)
		out := []Seg{byteSeg('{')}
		for i, e := range st {
			if i > 0 {
				out = append(out, byteSeg(' '))
			}
			if plus {
				out = append(out, strSegs(ut.Field(i).Name()+":")...)
			}
			out = append(out, fr.fmtElem(ut.Field(i).Type(), e, verb, depth+1, plus, sharp)...)
		}
		return append(out, byteSeg('}'))
	case *types.Signature:
		switch f := v.(type) {
		case *closure:
			if f == nil {
				return strSegs("<nil>")
			}
		}
		return strSegs("0x47a000")
	case *types.Interface:
		return fr.fmtValue(v, verb, depth, plus, sharp)
	}
	panic(pathAbort{"unsupported", fmt.Sprintf("formatting %s (%T) with %%%c", t, v, verb)})
}

// fmtElem formats an element of static type t (interfaces are unwrapped).
func (fr *frame) fmtElem(t types.Type, v value, verb byte, depth int, plus, sharp bool) []Seg {
	if _, ok := t.Underlying().(*types.Interface); ok {
		it := v.(iface)
		if it.t == nil {
			return strSegs("<nil>")
		}
		return fr.fmtTyped(it.t, it.v, verb, depth, plus, sharp)
	}
	return fr.fmtTyped(t, v, verb, depth, plus, sharp)
}

func (fr *frame) fmtString(v value, verb byte) []Seg {
	switch verb {
	case 'v', 's':
		return strSegs(v)
	case 'd', 'f', 't':
		out := strSegs("%!" + string(verb) + "(string=")
		out = append(out, strSegs(v)...)
		return append(out, byteSeg(')'))
	}
	s, ok := v.(string)
	if !ok {
		panic(pathAbort{"unsupported", "%" + string(verb) + " of a symbolic string"})
	}
	return strSegs(fmt.Sprintf("%"+string(verb), s))
}

func (fr *frame) ptrText(p *value) string {
	if fr.i.ptrNames == nil {
		fr.i.ptrNames = map[*value]int{}
	}
	id, ok := fr.i.ptrNames[p]
	if !ok {
		id = len(fr.i.ptrNames) + 1
		fr.i.ptrNames[p] = id
	}
	return fmt.Sprintf("0xc%09x", id*16)
}
