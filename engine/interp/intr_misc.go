// Intrinsics: bytes.Buffer, strings.Builder, digests and encoders, regexp,
// sort.Slice support, time, reflectlite.

package interp

import (
	"encoding/base64"
	"encoding/hex"
	"fmt"
	"go/types"
	"regexp"
	"unicode/utf8"
)

// nativeObj wraps a native Go object owned by an intrinsic.
type nativeObj struct{ v any }

// nativeFunc is a callable implemented by the engine.
type nativeFunc func(fr *frame, args []value) value

func bufField(p *value, idx int) *value {
	if p == nil {
		panic(rtErr{"invalid memory address or nil pointer dereference"})
	}
	return &(*p).(structure)[idx]
}

func bytesSegs(v value) []Seg {
	switch v := v.(type) {
	case nil:
		return nil
	case []value:
		out := make([]Seg, len(v))
		for i, b := range v {
			out[i] = segOfByteVal(b)
		}
		return out
	case ropeBytes:
		return v.R.S
	}
	panic(fmt.Sprintf("bytesSegs: %T", v))
}

func segsBytes(segs []Seg) value {
	if hasTokens(segs) {
		return ropeBytes{SymString{S: append([]Seg(nil), segs...)}}
	}
	out := make([]value, len(segs))
	for i, s := range segs {
		out[i] = byteVal(s)
	}
	return out
}

// runeSegs returns the UTF-8 encoding of a (possibly symbolic) rune.
func (fr *frame) runeSegs(r value) []Seg {
	if n, ok := concreteInt(r); ok {
		var b [4]byte
		k := utf8.EncodeRune(b[:], rune(n))
		return strSegs(string(b[:k]))
	}
	t := r.(SymInt).T // 32 bits
	ex := fr.i.ex
	c := func(v uint64) *Term { return BvConst(v, 32) }
	if ex.Branch(BvUlt(t, c(0x80))) {
		return []Seg{{K: SegByte, T: Extract(t, 7, 0)}}
	}
	if ex.Branch(BvUlt(t, c(0x800))) {
		b0 := BvOr(BvConst(0xC0, 8), Extract(BvLshr(t, c(6)), 7, 0))
		b1 := BvOr(BvConst(0x80, 8), BvAnd(Extract(t, 7, 0), BvConst(0x3F, 8)))
		return []Seg{{K: SegByte, T: b0}, {K: SegByte, T: b1}}
	}
	panic(pathAbort{"unsupported", "WriteRune of a symbolic rune >= 0x800"})
}

func init() {
	// ---- bytes.Buffer (field 0 = buf)
	externals["bytes.NewBufferString"] = func(fr *frame, args []value) value {
		var s value = structure{stringToBytes(args[0]), 0, int8(0)}
		return &s
	}
	externals["bytes.NewBuffer"] = func(fr *frame, args []value) value {
		var s value = structure{args[0], 0, int8(0)}
		return &s
	}
	appendBuf := func(idx int) func(p *value, segs []Seg) {
		return func(p *value, segs []Seg) {
			f := bufField(p, idx)
			cur := bytesSegs(*f)
			*f = segsBytes(append(append([]Seg(nil), cur...), segs...))
		}
	}
	for _, bt := range []struct {
		name string
		idx  int
	}{{"bytes.Buffer", 0}, {"strings.Builder", 1}} {
		add := appendBuf(bt.idx)
		idx := bt.idx
		recv := "(*" + bt.name + ")."
		externals[recv+"WriteString"] = func(fr *frame, args []value) value {
			segs := strSegs(args[1])
			add(args[0].(*value), segs)
			if hasTokens(segs) {
				return tuple{0, iface{}}
			}
			return tuple{len(segs), iface{}}
		}
		externals[recv+"Write"] = func(fr *frame, args []value) value {
			segs := bytesSegs(args[1])
			add(args[0].(*value), segs)
			return tuple{len(segs), iface{}}
		}
		externals[recv+"WriteByte"] = func(fr *frame, args []value) value {
			add(args[0].(*value), []Seg{segOfByteVal(args[1])})
			return iface{}
		}
		externals[recv+"WriteRune"] = func(fr *frame, args []value) value {
			segs := fr.runeSegs(args[1])
			add(args[0].(*value), segs)
			return tuple{len(segs), iface{}}
		}
		externals[recv+"String"] = func(fr *frame, args []value) value {
			p := args[0].(*value)
			if p == nil {
				return "<nil>"
			}
			return mkString(bytesSegs(*bufField(p, idx)))
		}
		externals[recv+"Len"] = func(fr *frame, args []value) value {
			segs := strSegs(fr.i.ex.flatten(mkString(bytesSegs(*bufField(args[0].(*value), idx)))))
			return len(segs)
		}
		externals[recv+"Reset"] = func(fr *frame, args []value) value {
			*bufField(args[0].(*value), idx) = []value(nil)
			return nil
		}
		externals[recv+"Grow"] = func(fr *frame, args []value) value { return nil }
	}
	externals["(*bytes.Buffer).Bytes"] = func(fr *frame, args []value) value {
		return segsBytes(bytesSegs(*bufField(args[0].(*value), 0)))
	}

	// ---- digests and encoders
	externals["crypto/sha256.New"] = func(fr *frame, args []value) value {
		pkg := fr.i.prog.ImportedPackage("crypto/sha256")
		t := types.NewPointer(pkg.Type("digest").Type())
		var s value = nativeObj{&digestState{alg: "sha256"}}
		return iface{t: t, v: &s}
	}
	externals["(*crypto/sha256.digest).Write"] = func(fr *frame, args []value) value {
		d := (*args[0].(*value)).(nativeObj).v.(*digestState)
		segs := bytesSegs(args[1])
		d.pre = append(d.pre, segs...)
		return tuple{len(segs), iface{}}
	}
	externals["(*crypto/sha256.digest).Reset"] = func(fr *frame, args []value) value {
		d := (*args[0].(*value)).(nativeObj).v.(*digestState)
		d.pre = nil
		return nil
	}
	externals["(*crypto/sha256.digest).Sum"] = func(fr *frame, args []value) value {
		d := (*args[0].(*value)).(nativeObj).v.(*digestState)
		prefix := bytesSegs(args[1])
		if s, ok := mkString(d.pre).(string); ok {
			return segsBytes(append(append([]Seg(nil), prefix...), strSegs(nativeDigest("sha256", s))...))
		}
		fr.i.ex.Assumption("SHA-256 is collision free: digests are equal iff their preimages are equal")
		pre := SymString{S: append([]Seg(nil), d.pre...)}
		return segsBytes(append(append([]Seg(nil), prefix...), Seg{K: SegDigest, Alg: "sha256", Pre: &pre}))
	}
	encode := func(name string, native func([]byte) string) externalFn {
		return func(fr *frame, args []value) value {
			segs := bytesSegs(args[len(args)-1])
			if !hasTokens(segs) {
				if s, ok := mkString(segs).(string); ok {
					if pre, ok := knownDigests.Load("sha256|" + s); ok {
						return nativeDigest("sha256+"+name, pre.(string))
					}
					return native([]byte(s))
				}
				return fr.concretiseStringCall(mkString(segs), func(s string) value { return native([]byte(s)) })
			}
			if len(segs) == 1 && segs[0].K == SegDigest {
				fr.i.ex.Assumption(name + " encoding is injective")
				return SymString{S: []Seg{{K: SegDigest, Alg: segs[0].Alg + "+" + name, Pre: segs[0].Pre}}}
			}
			panic(pathAbort{"unsupported", name + " encoding of bytes that mix digests and other content"})
		}
	}
	externals["encoding/hex.EncodeToString"] = encode("hex", hex.EncodeToString)
	externals["(*encoding/base64.Encoding).EncodeToString"] = func(fr *frame, args []value) value {
		enc := (*args[0].(*value)).(nativeObj).v.(*base64.Encoding)
		name := "b64std"
		if enc == base64.URLEncoding {
			name = "b64url"
		}
		return encode(name, enc.EncodeToString)(fr, args)
	}

	// ---- regexp (patterns are always concrete)
	externals["regexp.MustCompile"] = func(fr *frame, args []value) value {
		re, err := regexp.Compile(mustConcrete(args[0], "regexp"))
		if err != nil {
			panic(targetPanic{fr.i.newError("regexp: Compile: " + err.Error())})
		}
		var s value = nativeObj{re}
		return &s
	}
	externals["regexp.Compile"] = func(fr *frame, args []value) value {
		compile := func(p string) value {
			re, err := regexp.Compile(p)
			if err != nil {
				return tuple{(*value)(nil), fr.i.newError(err.Error())}
			}
			var s value = nativeObj{re}
			return tuple{&s, iface{}}
		}
		if p, ok := args[0].(string); ok {
			return compile(p)
		}
		return fr.concretiseStringCall(fr.i.ex.flatten(args[0]), compile)
	}
	reMatch := func(fr *frame, args []value) value {
		re := (*args[0].(*value)).(nativeObj).v.(*regexp.Regexp)
		subj := args[1]
		if _, isStr := subj.(string); !isStr {
			if _, isSym := subj.(SymString); !isSym {
				subj = mkString(bytesSegs(subj)) // []byte subject
			}
		}
		if s, ok := subj.(string); ok {
			return re.MatchString(s)
		}
		return fr.concretiseStringCall(fr.i.ex.flatten(subj), func(s string) value { return re.MatchString(s) })
	}
	externals["(*regexp.Regexp).MatchString"] = reMatch
	externals["(*regexp.Regexp).Match"] = reMatch
	externals["(*regexp.Regexp).String"] = func(fr *frame, args []value) value {
		return (*args[0].(*value)).(nativeObj).v.(*regexp.Regexp).String()
	}
	externals["regexp.QuoteMeta"] = func(fr *frame, args []value) value {
		if s, ok := args[0].(string); ok {
			return regexp.QuoteMeta(s)
		}
		// every metacharacter byte gets a backslash: per-byte decision
		segs := strSegs(fr.i.ex.flatten(args[0]))
		var out []Seg
		for _, sg := range segs {
			if fr.inSet(sg, `\.+*?()|[]{}^$`) {
				out = append(out, byteSeg('\\'))
			}
			out = append(out, sg)
		}
		return mkString(out)
	}
	externals["(*regexp.Regexp).FindAllString"] = func(fr *frame, args []value) value {
		re := (*args[0].(*value)).(nativeObj).v.(*regexp.Regexp)
		n := int(fr.concreteInt(args[2], "n"))
		s, ok := args[1].(string)
		if !ok {
			return fr.concretiseStringCall(fr.i.ex.flatten(args[1]), func(s string) value {
				return strSlice(re.FindAllString(s, n))
			})
		}
		m := re.FindAllString(s, n)
		if m == nil {
			return []value(nil)
		}
		return strSlice(m)
	}
	externals["regexp.Match"] = func(fr *frame, args []value) value {
		pat := fr.i.ex.flatten(args[0])
		subj := fr.i.ex.flatten(mkString(bytesSegs(args[1])))
		run := func(p, s string) value {
			re, err := regexp.Compile(p)
			if err != nil {
				return tuple{false, fr.i.newError(err.Error())}
			}
			return tuple{re.MatchString(s), iface{}}
		}
		ps, ok1 := pat.(string)
		ss, ok2 := subj.(string)
		if ok1 && ok2 {
			return run(ps, ss)
		}
		if !ok1 {
			return fr.concretiseStringCall(pat, func(p string) value {
				if ok2 {
					return run(p, ss)
				}
				return fr.regexMatchSym(p, subj)
			})
		}
		return fr.regexMatchSym(ps, subj)
	}

	// ---- sort.Slice support
	externals["internal/reflectlite.ValueOf"] = func(fr *frame, args []value) value {
		return nativeObj{args[0].(iface).v}
	}
	externals["(internal/reflectlite.Value).Len"] = func(fr *frame, args []value) value {
		return len(args[0].(nativeObj).v.([]value))
	}
	externals["internal/reflectlite.Swapper"] = func(fr *frame, args []value) value {
		s := args[0].(iface).v.([]value)
		return nativeFunc(func(fr *frame, a []value) value {
			i, j := fr.index(a[0], len(s)), fr.index(a[1], len(s))
			s[i], s[j] = s[j], s[i]
			return nil
		})
	}

	// ---- time
	externals["time.Now"] = func(fr *frame, args []value) value {
		return nativeObj{"time.Now"}
	}
	externals["(time.Time).UnixNano"] = func(fr *frame, args []value) value {
		fr.i.ex.Assumption("time.Now().UnixNano() is an arbitrary positive int64")
		now := fr.i.ex.Fresh("now", "int", SBV, 64)
		fr.i.ex.Assume(BvSlt(BvConst(0, 64), now))
		return mkScalar(now, types.Int64)
	}
}

type digestState struct {
	alg string
	pre []Seg
}

// regexMatchSym decides a concrete pattern against a byte-only symbolic
// subject by bounded concretisation of the subject bytes.
func (fr *frame) regexMatchSym(pat string, subj value) value {
	re, err := regexp.Compile(pat)
	if err != nil {
		return tuple{false, fr.i.newError(err.Error())}
	}
	return fr.concretiseStringCall(subj, func(s string) value {
		return tuple{re.MatchString(s), iface{}}
	})
}

var (
	b64Std = base64.StdEncoding
	b64URL = base64.URLEncoding
)
