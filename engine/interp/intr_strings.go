// Intrinsics for strings, strconv, bytes.Buffer, strings.Builder.
// Concrete arguments call the real function; symbolic subjects use
// per-byte decisions so that result lengths are concrete on each path.

package interp

import (
	"fmt"
	"go/types"
	"math"
	"strconv"
	"strings"
)

func allStrings(vs ...value) ([]string, bool) {
	out := make([]string, len(vs))
	for i, v := range vs {
		s, ok := v.(string)
		if !ok {
			return nil, false
		}
		out[i] = s
	}
	return out, true
}

func strSlice(ss []string) value {
	out := make([]value, len(ss))
	for i, s := range ss {
		out[i] = s
	}
	return out
}

func mustConcrete(v value, what string) string {
	s, ok := v.(string)
	if !ok {
		panic(pathAbort{"unsupported", what + " must be concrete"})
	}
	return s
}

// matchAt decides whether pat occurs in segs at position i.
func (fr *frame) matchAt(segs []Seg, i int, pat string) bool {
	if i+len(pat) > len(segs) {
		return false
	}
	var cs []*Term
	for k := 0; k < len(pat); k++ {
		cs = append(cs, Eq(segs[i+k].T, BvConst(uint64(pat[k]), 8)))
	}
	return fr.i.ex.Branch(And(cs...))
}

func (fr *frame) inSet(b Seg, set string) bool {
	var cs []*Term
	for k := 0; k < len(set); k++ {
		cs = append(cs, Eq(b.T, BvConst(uint64(set[k]), 8)))
	}
	return fr.i.ex.Branch(Or(cs...))
}

func asciiOnly(s string) bool {
	for i := 0; i < len(s); i++ {
		if s[i] >= 0x80 {
			return false
		}
	}
	return true
}

func (fr *frame) symSplit(s value, sep string, n int) value {
	segs := strSegs(fr.i.ex.flatten(s))
	if sep == "" {
		panic(pathAbort{"unsupported", "Split with empty separator on a symbolic string"})
	}
	var parts []value
	start := 0
	i := 0
	for i < len(segs) {
		if n > 0 && len(parts) == n-1 {
			break
		}
		if fr.matchAt(segs, i, sep) {
			parts = append(parts, mkString(segs[start:i]))
			i += len(sep)
			start = i
			continue
		}
		i++
	}
	parts = append(parts, mkString(segs[start:]))
	return parts
}

func (fr *frame) symReplaceAll(s value, old, new string) value {
	segs := strSegs(fr.i.ex.flatten(s))
	if old == "" {
		panic(pathAbort{"unsupported", "ReplaceAll with empty pattern on a symbolic string"})
	}
	var out []Seg
	i := 0
	for i < len(segs) {
		if fr.matchAt(segs, i, old) {
			out = append(out, strSegs(new)...)
			i += len(old)
			continue
		}
		out = append(out, segs[i])
		i++
	}
	return mkString(out)
}

func (fr *frame) symCase(s value, upper bool) value {
	segs := strSegs(fr.i.ex.flatten(s))
	out := make([]Seg, len(segs))
	for i, sg := range segs {
		if sg.T.IsConst() {
			c := byte(sg.T.U)
			if c >= 0x80 {
				panic(pathAbort{"unsupported", "case mapping of non-ASCII bytes in a symbolic string"})
			}
			if upper {
				out[i] = byteSeg(strings.ToUpper(string(c))[0])
			} else {
				out[i] = byteSeg(strings.ToLower(string(c))[0])
			}
			continue
		}
		fr.i.ex.Assumption("symbolic string bytes passed to ToLower/ToUpper are ASCII (< 0x80)")
		fr.i.ex.Assume(BvUlt(sg.T, BvConst(0x80, 8)))
		var lo, hi byte = 'A', 'Z'
		delta := BvConst(32, 8)
		var t *Term
		if upper {
			lo, hi = 'a', 'z'
			t = Ite(And(BvUle(BvConst(uint64(lo), 8), sg.T), BvUle(sg.T, BvConst(uint64(hi), 8))), BvSub(sg.T, delta), sg.T)
		} else {
			t = Ite(And(BvUle(BvConst(uint64(lo), 8), sg.T), BvUle(sg.T, BvConst(uint64(hi), 8))), BvAdd(sg.T, delta), sg.T)
		}
		out[i] = Seg{K: SegByte, T: t}
	}
	return mkString(out)
}

func init() {
	externals["strings.Split"] = func(fr *frame, args []value) value {
		if ss, ok := allStrings(args[0], args[1]); ok {
			return strSlice(strings.Split(ss[0], ss[1]))
		}
		return fr.symSplit(args[0], mustConcrete(args[1], "separator"), -1)
	}
	externals["strings.SplitN"] = func(fr *frame, args []value) value {
		n := int(fr.concreteInt(args[2], "SplitN n"))
		if ss, ok := allStrings(args[0], args[1]); ok {
			return strSlice(strings.SplitN(ss[0], ss[1], n))
		}
		if n == 0 {
			return []value(nil)
		}
		return fr.symSplit(args[0], mustConcrete(args[1], "separator"), n)
	}
	externals["strings.ReplaceAll"] = func(fr *frame, args []value) value {
		if ss, ok := allStrings(args[0], args[1], args[2]); ok {
			return strings.ReplaceAll(ss[0], ss[1], ss[2])
		}
		return fr.symReplaceAll(args[0], mustConcrete(args[1], "pattern"), mustConcrete(args[2], "replacement"))
	}
	trim := func(left, right bool) externalFn {
		return func(fr *frame, args []value) value {
			if ss, ok := allStrings(args[0], args[1]); ok {
				switch {
				case left && right:
					return strings.Trim(ss[0], ss[1])
				case left:
					return strings.TrimLeft(ss[0], ss[1])
				default:
					return strings.TrimRight(ss[0], ss[1])
				}
			}
			set := mustConcrete(args[1], "cutset")
			if !asciiOnly(set) {
				panic(pathAbort{"unsupported", "non-ASCII cutset"})
			}
			segs := strSegs(fr.i.ex.flatten(args[0]))
			lo, hi := 0, len(segs)
			if left {
				for lo < hi && fr.inSet(segs[lo], set) {
					lo++
				}
			}
			if right {
				for hi > lo && fr.inSet(segs[hi-1], set) {
					hi--
				}
			}
			return mkString(segs[lo:hi])
		}
	}
	externals["strings.Trim"] = trim(true, true)
	externals["strings.TrimLeft"] = trim(true, false)
	externals["strings.TrimRight"] = trim(false, true)
	externals["strings.TrimSpace"] = func(fr *frame, args []value) value {
		if s, ok := args[0].(string); ok {
			return strings.TrimSpace(s)
		}
		fr.i.ex.Assumption("symbolic strings passed to TrimSpace are ASCII")
		return trim(true, true)(fr, []value{args[0], " \t\n\v\f\r"})
	}
	externals["strings.HasPrefix"] = func(fr *frame, args []value) value {
		if ss, ok := allStrings(args[0], args[1]); ok {
			return strings.HasPrefix(ss[0], ss[1])
		}
		segs := strSegs(fr.i.ex.flatten(args[0]))
		pre := strSegs(fr.i.ex.flatten(args[1]))
		if len(pre) > len(segs) {
			return false
		}
		return strEq(mkString(segs[:len(pre)]), mkString(pre))
	}
	externals["strings.HasSuffix"] = func(fr *frame, args []value) value {
		if ss, ok := allStrings(args[0], args[1]); ok {
			return strings.HasSuffix(ss[0], ss[1])
		}
		segs := strSegs(fr.i.ex.flatten(args[0]))
		suf := strSegs(fr.i.ex.flatten(args[1]))
		if len(suf) > len(segs) {
			return false
		}
		return strEq(mkString(segs[len(segs)-len(suf):]), mkString(suf))
	}
	externals["strings.CutSuffix"] = func(fr *frame, args []value) value {
		if ss, ok := allStrings(args[0], args[1]); ok {
			before, found := strings.CutSuffix(ss[0], ss[1])
			return tuple{before, found}
		}
		segs := strSegs(fr.i.ex.flatten(args[0]))
		suf := mustConcrete(args[1], "suffix")
		if len(suf) <= len(segs) && fr.matchAt(segs, len(segs)-len(suf), suf) {
			return tuple{mkString(segs[:len(segs)-len(suf)]), true}
		}
		return tuple{mkString(segs), false}
	}
	externals["strings.CutPrefix"] = func(fr *frame, args []value) value {
		if ss, ok := allStrings(args[0], args[1]); ok {
			after, found := strings.CutPrefix(ss[0], ss[1])
			return tuple{after, found}
		}
		segs := strSegs(fr.i.ex.flatten(args[0]))
		pre := mustConcrete(args[1], "prefix")
		if fr.matchAt(segs, 0, pre) {
			return tuple{mkString(segs[len(pre):]), true}
		}
		return tuple{mkString(segs), false}
	}
	externals["strings.Cut"] = func(fr *frame, args []value) value {
		if ss, ok := allStrings(args[0], args[1]); ok {
			a, b, found := strings.Cut(ss[0], ss[1])
			return tuple{a, b, found}
		}
		segs := strSegs(fr.i.ex.flatten(args[0]))
		sep := mustConcrete(args[1], "separator")
		for i := 0; i+len(sep) <= len(segs); i++ {
			if fr.matchAt(segs, i, sep) {
				return tuple{mkString(segs[:i]), mkString(segs[i+len(sep):]), true}
			}
		}
		return tuple{mkString(segs), "", false}
	}
	externals["strings.Count"] = func(fr *frame, args []value) value {
		if ss, ok := allStrings(args[0], args[1]); ok {
			return strings.Count(ss[0], ss[1])
		}
		segs := strSegs(fr.i.ex.flatten(args[0]))
		pat := mustConcrete(args[1], "substring")
		if pat == "" {
			panic(pathAbort{"unsupported", "strings.Count with empty pattern on a symbolic string"})
		}
		n := 0
		for i := 0; i+len(pat) <= len(segs); {
			if fr.matchAt(segs, i, pat) {
				n++
				i += len(pat)
			} else {
				i++
			}
		}
		return n
	}
	externals["strings.EqualFold"] = func(fr *frame, args []value) value {
		if ss, ok := allStrings(args[0], args[1]); ok {
			return strings.EqualFold(ss[0], ss[1])
		}
		return strEq(fr.symCase(args[0], false), fr.symCase(args[1], false))
	}
	externals["strings.Repeat"] = func(fr *frame, args []value) value {
		n := int(fr.concreteInt(args[1], "count"))
		var out value = ""
		for i := 0; i < n; i++ {
			out = strConcat(out, args[0])
		}
		return out
	}
	externals["strings.TrimSuffix"] = func(fr *frame, args []value) value {
		if ss, ok := allStrings(args[0], args[1]); ok {
			return strings.TrimSuffix(ss[0], ss[1])
		}
		segs := strSegs(fr.i.ex.flatten(args[0]))
		suf := mustConcrete(args[1], "suffix")
		if len(suf) <= len(segs) && fr.matchAt(segs, len(segs)-len(suf), suf) {
			return mkString(segs[:len(segs)-len(suf)])
		}
		return mkString(segs)
	}
	externals["strings.TrimPrefix"] = func(fr *frame, args []value) value {
		if ss, ok := allStrings(args[0], args[1]); ok {
			return strings.TrimPrefix(ss[0], ss[1])
		}
		segs := strSegs(fr.i.ex.flatten(args[0]))
		pre := mustConcrete(args[1], "prefix")
		if fr.matchAt(segs, 0, pre) {
			return mkString(segs[len(pre):])
		}
		return mkString(segs)
	}
	externals["strings.Contains"] = func(fr *frame, args []value) value {
		if ss, ok := allStrings(args[0], args[1]); ok {
			return strings.Contains(ss[0], ss[1])
		}
		segs := strSegs(fr.i.ex.flatten(args[0]))
		pat := mustConcrete(args[1], "substring")
		for i := 0; i+len(pat) <= len(segs); i++ {
			if fr.matchAt(segs, i, pat) {
				return true
			}
		}
		return false
	}
	externals["strings.ContainsAny"] = func(fr *frame, args []value) value {
		if ss, ok := allStrings(args[0], args[1]); ok {
			return strings.ContainsAny(ss[0], ss[1])
		}
		set := mustConcrete(args[1], "character set")
		if !asciiOnly(set) {
			panic(pathAbort{"unsupported", "non-ASCII character set"})
		}
		for _, sg := range strSegs(fr.i.ex.flatten(args[0])) {
			if fr.inSet(sg, set) {
				return true
			}
		}
		return false
	}
	externals["strings.ContainsRune"] = func(fr *frame, args []value) value {
		r := fr.concreteInt(args[1], "rune")
		if s, ok := args[0].(string); ok {
			return strings.ContainsRune(s, rune(r))
		}
		if r >= 0x80 {
			panic(pathAbort{"unsupported", "non-ASCII rune"})
		}
		for _, sg := range strSegs(fr.i.ex.flatten(args[0])) {
			if fr.inSet(sg, string(rune(r))) {
				return true
			}
		}
		return false
	}
	externals["strings.ToLower"] = func(fr *frame, args []value) value {
		if s, ok := args[0].(string); ok {
			return strings.ToLower(s)
		}
		return fr.symCase(args[0], false)
	}
	externals["strings.ToUpper"] = func(fr *frame, args []value) value {
		if s, ok := args[0].(string); ok {
			return strings.ToUpper(s)
		}
		return fr.symCase(args[0], true)
	}
	externals["strings.Join"] = func(fr *frame, args []value) value {
		elems := args[0].([]value)
		var out value = ""
		for i, e := range elems {
			if i > 0 {
				out = strConcat(out, args[1])
			}
			out = strConcat(out, e)
		}
		return out
	}
	externals["strings.Compare"] = func(fr *frame, args []value) value {
		if ss, ok := allStrings(args[0], args[1]); ok {
			return strings.Compare(ss[0], ss[1])
		}
		// a number's text against a string that cannot start a number: the
		// first byte decides, no concretisation needed
		sa, sb := strSegs(args[0]), strSegs(args[1])
		if r, ok := numTextVsFirstByte(sa, sb, false); ok {
			if fr.i.ex.Branch(boolTerm(r)) {
				return -1
			}
			return 1
		}
		if r, ok := numTextVsFirstByte(sb, sa, false); ok {
			if fr.i.ex.Branch(boolTerm(r)) {
				return 1
			}
			return -1
		}
		a, b := fr.i.ex.flatten(args[0]), fr.i.ex.flatten(args[1])
		return mkScalar(strCompareTerm(a, b), types.Int)
	}
	externals["strings.Index"] = func(fr *frame, args []value) value {
		if ss, ok := allStrings(args[0], args[1]); ok {
			return strings.Index(ss[0], ss[1])
		}
		segs := strSegs(fr.i.ex.flatten(args[0]))
		pat := mustConcrete(args[1], "substring")
		for i := 0; i+len(pat) <= len(segs); i++ {
			if fr.matchAt(segs, i, pat) {
				return i
			}
		}
		return -1
	}
	externals["strings.IndexByte"] = func(fr *frame, args []value) value {
		segs := strSegs(fr.i.ex.flatten(args[0]))
		c := segOfByteVal(args[1])
		for i := range segs {
			if fr.i.ex.Branch(Eq(segs[i].T, c.T)) {
				return i
			}
		}
		return -1
	}

	// ---- strconv
	externals["strconv.ParseFloat"] = func(fr *frame, args []value) value {
		bits := int(fr.concreteInt(args[1], "bitSize"))
		if s, ok := args[0].(string); ok {
			f, err := strconv.ParseFloat(s, bits)
			if err != nil {
				return tuple{f, fr.i.newError("strconv.ParseFloat: parsing " + strconv.Quote(s) + ": invalid syntax")}
			}
			return tuple{f, iface{}}
		}
		ss := args[0].(SymString)
		if len(ss.S) == 1 && bits == 64 {
			switch ss.S[0].K {
			case SegNum:
				fr.i.ex.Assumption("ParseFloat(FormatFloat(x,'g',-1,64)) = x (shortest-representation round trip)")
				return tuple{mkScalar(ss.S[0].T, types.Float64), iface{}}
			case SegInt:
				return tuple{mkScalar(FpFromBV(ss.S[0].T, true, SF64), types.Float64), iface{}}
			}
		}
		fl := fr.i.ex.flatten(ss)
		if s, ok := fl.(string); ok {
			f, err := strconv.ParseFloat(s, bits)
			if err != nil {
				return tuple{f, fr.i.newError("strconv.ParseFloat: parsing " + strconv.Quote(s) + ": invalid syntax")}
			}
			return tuple{f, iface{}}
		}
		return fr.concretiseStringCall(fl, func(s string) value {
			f, err := strconv.ParseFloat(s, bits)
			if err != nil {
				return tuple{f, fr.i.newError("strconv.ParseFloat: invalid syntax")}
			}
			return tuple{f, iface{}}
		})
	}
	externals["strconv.Atoi"] = func(fr *frame, args []value) value {
		atoi := func(s string) value {
			n, err := strconv.Atoi(s)
			if err != nil {
				return tuple{n, fr.i.newError("strconv.Atoi: parsing " + strconv.Quote(s) + ": invalid syntax")}
			}
			return tuple{n, iface{}}
		}
		if s, ok := args[0].(string); ok {
			return atoi(s)
		}
		ss := args[0].(SymString)
		if len(ss.S) == 1 && ss.S[0].K == SegInt {
			return tuple{mkScalar(ss.S[0].T, types.Int), iface{}}
		}
		fl := fr.i.ex.flatten(ss)
		if s, ok := fl.(string); ok {
			return atoi(s)
		}
		return fr.concretiseStringCall(fl, atoi)
	}
	externals["strconv.ParseInt"] = func(fr *frame, args []value) value {
		base := int(fr.concreteInt(args[1], "base"))
		bits := int(fr.concreteInt(args[2], "bitSize"))
		parse := func(s string) value {
			n, err := strconv.ParseInt(s, base, bits)
			if err != nil {
				return tuple{n, fr.i.newError(err.Error())}
			}
			return tuple{n, iface{}}
		}
		if s, ok := args[0].(string); ok {
			return parse(s)
		}
		ss := args[0].(SymString)
		// the canonical decimal text of an integer parses back to it in base 10
		// and in base 0 (no leading zeros, no prefix)
		if len(ss.S) == 1 && ss.S[0].K == SegInt && (base == 10 || base == 0) && (bits == 0 || bits == 64) {
			return tuple{mkScalar(ss.S[0].T, types.Int64), iface{}}
		}
		fl := fr.i.ex.flatten(ss)
		if s, ok := fl.(string); ok {
			return parse(s)
		}
		return fr.concretiseStringCall(fl, parse)
	}
	externals["strconv.Itoa"] = func(fr *frame, args []value) value {
		return mkString(intSegs(args[0]))
	}
	externals["strconv.FormatInt"] = func(fr *frame, args []value) value {
		base := fr.concreteInt(args[1], "base")
		if n, ok := concreteInt(args[0]); ok {
			return strconv.FormatInt(n, int(base))
		}
		if base != 10 {
			panic(pathAbort{"unsupported", "FormatInt base != 10 on a symbolic integer"})
		}
		return mkString(intSegs(args[0]))
	}
	externals["strconv.FormatBool"] = func(fr *frame, args []value) value {
		switch b := args[0].(type) {
		case bool:
			return strconv.FormatBool(b)
		case SymBool:
			if fr.i.ex.Branch(b.T) {
				return "true"
			}
			return "false"
		}
		panic("FormatBool")
	}
	externals["strconv.FormatFloat"] = func(fr *frame, args []value) value {
		fmtc := byte(fr.concreteInt(args[1], "fmt"))
		prec := int(fr.concreteInt(args[2], "prec"))
		bits := int(fr.concreteInt(args[3], "bitSize"))
		if f, ok := args[0].(float64); ok {
			return strconv.FormatFloat(f, fmtc, prec, bits)
		}
		sf := args[0].(SymFloat)
		if fmtc == 'g' && prec == -1 && bits == 64 {
			return mkString(numSegs(sf))
		}
		f := fr.i.ex.concretiseF64(FpToFp(sf.T, SF64))
		return strconv.FormatFloat(f, fmtc, prec, bits)
	}
	externals["strconv.Quote"] = func(fr *frame, args []value) value {
		return strconv.Quote(mustConcrete(args[0], "Quote operand"))
	}

	// ---- math
	externals["math.Mod"] = func(fr *frame, args []value) value {
		a, _, _ := scalarTerm(args[0])
		b, _, _ := scalarTerm(args[1])
		if a.IsConst() && b.IsConst() {
			return math.Mod(fpVal(a), fpVal(b))
		}
		if b.IsConst() && fpVal(b) == 1 {
			// x mod 1 = x - trunc(x) exactly; a zero result keeps x's sign
			r := FpSub(a, FpTrunc(a))
			zero := fpConstOf(a.Sort, 0)
			neg := And(FpEq(r, zero), FpLt(a, zero))
			return mkScalar(Ite(neg, FpNeg(zero), r), types.Float64)
		}
		fr.i.ex.Assumption("math.Mod is an uninterpreted function fmod on symbolic operands")
		return mkScalar(Fmod(a, b), types.Float64)
	}
	externals["math.Trunc"] = func(fr *frame, args []value) value {
		a, _, _ := scalarTerm(args[0])
		return mkScalar(FpTrunc(a), types.Float64)
	}
	externals["math.IsNaN"] = func(fr *frame, args []value) value {
		a, _, _ := scalarTerm(args[0])
		return mkScalar(FpIsNaN(a), types.Bool)
	}
	externals["math.IsInf"] = func(fr *frame, args []value) value {
		a, _, _ := scalarTerm(args[0])
		sign := fr.concreteInt(args[1], "sign")
		inf := FpIsInf(a)
		zero := fpConstOf(a.Sort, 0)
		switch {
		case sign > 0:
			return mkScalar(And(inf, FpLt(zero, a)), types.Bool)
		case sign < 0:
			return mkScalar(And(inf, FpLt(a, zero)), types.Bool)
		}
		return mkScalar(inf, types.Bool)
	}
	externals["math.Abs"] = func(fr *frame, args []value) value {
		a, _, _ := scalarTerm(args[0])
		return mkScalar(FpAbs(a), types.Float64)
	}
	externals["math.Inf"] = func(fr *frame, args []value) value {
		return math.Inf(int(fr.concreteInt(args[0], "sign")))
	}
	externals["math.NaN"] = func(fr *frame, args []value) value { return math.NaN() }
	conc1 := func(name string, f func(float64) float64) {
		externals["math."+name] = func(fr *frame, args []value) value {
			if x, ok := args[0].(float64); ok {
				return f(x)
			}
			panic(pathAbort{"unsupported", "math." + name + " on a symbolic value"})
		}
	}
	rti := func(name string, f func(*Term) *Term) {
		externals["math."+name] = func(fr *frame, args []value) value {
			a, _, _ := scalarTerm(args[0])
			return mkScalar(f(a), types.Float64)
		}
	}
	rti("Floor", FpFloor)
	rti("Ceil", FpCeil)
	rti("Round", FpRound)
	conc1("Sqrt", math.Sqrt)
	conc1("Log", math.Log)
	conc1("Exp", math.Exp)
	externals["math.Ldexp"] = func(fr *frame, args []value) value {
		if x, ok := args[0].(float64); ok {
			return math.Ldexp(x, int(fr.concreteInt(args[1], "exp")))
		}
		panic(pathAbort{"unsupported", "math.Ldexp on a symbolic value"})
	}
	externals["math.Pow"] = func(fr *frame, args []value) value {
		x, ok1 := args[0].(float64)
		y, ok2 := args[1].(float64)
		if ok1 && ok2 {
			return math.Pow(x, y)
		}
		panic(pathAbort{"unsupported", "math.Pow on a symbolic value"})
	}
	externals["math.Float64bits"] = func(fr *frame, args []value) value {
		if x, ok := args[0].(float64); ok {
			return math.Float64bits(x)
		}
		sf, ok := args[0].(SymFloat)
		if !ok {
			panic(pathAbort{"unsupported", "math.Float64bits on a symbolic value"})
		}
		t := FpToFp(sf.T, SF64)
		if t.Op == OpFpFromBits {
			return mkScalar(t.Args[0], types.Uint64)
		}
		if fr.i.ex.Branch(FpIsNaN(t)) {
			return math.Float64bits(math.NaN()) // the payload of a computed NaN is not modelled
		}
		// the bits are the unique b with to_fp(b) = x (structural equality: -0 and +0 differ)
		b := fr.i.ex.Fresh("f64bits", "aux", SBV, 64)
		fr.i.ex.Assume(Eq(FpFromBits(b, SF64), t))
		return mkScalar(b, types.Uint64)
	}
	externals["math.Float64frombits"] = func(fr *frame, args []value) value {
		a, _, _ := scalarTerm(args[0])
		return mkScalar(FpFromBits(a, SF64), types.Float64)
	}
	externals["math.Signbit"] = func(fr *frame, args []value) value {
		if x, ok := args[0].(float64); ok {
			return math.Signbit(x)
		}
		sf, ok := args[0].(SymFloat)
		if !ok {
			panic(pathAbort{"unsupported", "math.Signbit on a symbolic value"})
		}
		t := FpToFp(sf.T, SF64)
		if t.Op == OpFpFromBits {
			return mkScalar(Eq(Extract(t.Args[0], 63, 63), BvConst(1, 1)), types.Bool)
		}
		if fr.i.ex.Branch(FpIsNaN(t)) {
			// the sign of a computed NaN is not modelled: either
			return fr.i.ex.Branch(mkFreshBool(fr, "nan-sign"))
		}
		zero, one := F64Const(0), F64Const(1)
		neg := Or(FpLt(t, zero), And(FpEq(t, zero), FpLt(FpDiv(one, t), zero)))
		return mkScalar(neg, types.Bool)
	}
}

// concretiseStringCall enumerates the feasible contents of a byte-only
// symbolic string (bounded) and applies f to each.
func (fr *frame) concretiseStringCall(s value, f func(string) value) value {
	segs := strSegs(s)
	b := make([]byte, len(segs))
	for i, sg := range segs {
		b[i] = byte(fr.i.ex.ConcretiseBV(sg.T, fr.i.ex.concCap(), "string byte"))
	}
	return f(string(b))
}

var _ = fmt.Sprint

func mkFreshBool(fr *frame, what string) *Term {
	b := fr.i.ex.Fresh(what, "aux", SBV, 1)
	return Eq(b, BvConst(1, 1))
}
