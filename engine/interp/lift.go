// Native sqlparser.Parse with reflection lifting of the AST into
// interpreter values, and substitution of symbolic literal holes.

package interp

import (
	"fmt"
	"go/types"
	"reflect"
	"strconv"
	"strings"
	"unsafe"

	"github.com/vedadiyan/sqlparser/v2"
	"golang.org/x/tools/go/ssa"
)

const sqlparserPath = "github.com/vedadiyan/sqlparser/v2"

type lifter struct {
	i     *interpreter
	memo  map[unsafe.Pointer]*value
	holes map[string]hole
	used  map[string]bool
}

type hole struct {
	kind string // num | int | str
	val  value
}

func (m *Machine) typeOfReflect(rt reflect.Type) types.Type {
	m.typeMu.Lock()
	defer m.typeMu.Unlock()
	return m.typeOfReflectLocked(rt)
}

func (m *Machine) typeOfReflectLocked(rt reflect.Type) types.Type {
	if t, ok := m.typeCache[rt]; ok {
		return t
	}
	var out types.Type
	if rt.Name() != "" && rt.PkgPath() != "" {
		for _, p := range m.Prog.AllPackages() {
			if p.Pkg.Path() == rt.PkgPath() {
				if o := p.Pkg.Scope().Lookup(rt.Name()); o != nil {
					out = o.Type()
				}
			}
		}
		if out == nil {
			panic(pathAbort{"engine", "lift: cannot find type " + rt.String()})
		}
	} else {
		switch rt.Kind() {
		case reflect.Ptr:
			out = types.NewPointer(m.typeOfReflectLocked(rt.Elem()))
		case reflect.Slice:
			out = types.NewSlice(m.typeOfReflectLocked(rt.Elem()))
		case reflect.Array:
			out = types.NewArray(m.typeOfReflectLocked(rt.Elem()), int64(rt.Len()))
		case reflect.String:
			out = types.Typ[types.String]
		case reflect.Int:
			out = types.Typ[types.Int]
		case reflect.Int8:
			out = types.Typ[types.Int8]
		case reflect.Int16:
			out = types.Typ[types.Int16]
		case reflect.Int32:
			out = types.Typ[types.Int32]
		case reflect.Int64:
			out = types.Typ[types.Int64]
		case reflect.Uint8:
			out = types.Typ[types.Uint8]
		case reflect.Uint16:
			out = types.Typ[types.Uint16]
		case reflect.Uint32:
			out = types.Typ[types.Uint32]
		case reflect.Uint64:
			out = types.Typ[types.Uint64]
		case reflect.Bool:
			out = types.Typ[types.Bool]
		case reflect.Float64:
			out = types.Typ[types.Float64]
		default:
			panic(pathAbort{"engine", "lift: unsupported reflect type " + rt.String()})
		}
	}
	m.typeCache[rt] = out
	return out
}

// reflectTypeOf is the inverse of typeOfReflect for types the lifter has seen.
func (m *Machine) reflectTypeOf(t types.Type) reflect.Type {
	m.typeMu.Lock()
	defer m.typeMu.Unlock()
	for rt, tt := range m.typeCache {
		if types.Identical(tt, t) {
			return rt
		}
	}
	return nil
}

// unlift stores the interpreter value v into the native location rv.
func (fr *frame) unlift(v value, rv reflect.Value) {
	if !rv.CanSet() {
		rv = reflect.NewAt(rv.Type(), unsafe.Pointer(rv.UnsafeAddr())).Elem()
	}
	switch rv.Kind() {
	case reflect.Bool:
		b, ok := v.(bool)
		if !ok {
			panic(pathAbort{"unsupported", "unlift: symbolic bool in an AST node"})
		}
		rv.SetBool(b)
	case reflect.Int, reflect.Int8, reflect.Int16, reflect.Int32, reflect.Int64:
		n, ok := concreteInt(v)
		if !ok {
			panic(pathAbort{"unsupported", "unlift: symbolic integer in an AST node"})
		}
		rv.SetInt(n)
	case reflect.Uint, reflect.Uint8, reflect.Uint16, reflect.Uint32, reflect.Uint64:
		n, ok := concreteInt(v)
		if !ok {
			panic(pathAbort{"unsupported", "unlift: symbolic integer in an AST node"})
		}
		rv.SetUint(uint64(n))
	case reflect.Float64, reflect.Float32:
		f, ok := v.(float64)
		if !ok {
			panic(pathAbort{"unsupported", "unlift: symbolic float in an AST node"})
		}
		rv.SetFloat(f)
	case reflect.String:
		s, ok := v.(string)
		if !ok {
			panic(pathAbort{"unsupported", "unlift: symbolic string in an AST node"})
		}
		rv.SetString(s)
	case reflect.Slice:
		sl, ok := v.([]value)
		if !ok || sl == nil {
			return
		}
		out := reflect.MakeSlice(rv.Type(), len(sl), len(sl))
		for i := range sl {
			fr.unlift(sl[i], out.Index(i))
		}
		rv.Set(out)
	case reflect.Ptr:
		p, ok := v.(*value)
		if !ok || p == nil {
			return
		}
		if n, ok := fr.i.natives[p]; ok && reflect.TypeOf(n) == rv.Type() {
			rv.Set(reflect.ValueOf(n))
			return
		}
		np := reflect.New(rv.Type().Elem())
		fr.unlift(*p, np.Elem())
		rv.Set(np)
	case reflect.Interface:
		it, ok := v.(iface)
		if !ok || it.t == nil {
			return
		}
		rt := fr.i.m.reflectTypeOf(it.t)
		if rt == nil {
			panic(pathAbort{"unsupported", "unlift: no native type for " + it.t.String()})
		}
		e := reflect.New(rt).Elem()
		fr.unlift(it.v, e)
		rv.Set(e)
	case reflect.Struct:
		st, ok := v.(structure)
		if !ok {
			panic(pathAbort{"unsupported", "unlift: struct expected for " + rv.Type().String()})
		}
		for i := range st {
			fr.unlift(st[i], rv.Field(i))
		}
	case reflect.Array:
		ar, ok := v.(array)
		if !ok {
			return
		}
		for i := range ar {
			fr.unlift(ar[i], rv.Index(i))
		}
	case reflect.Map, reflect.Func:
		// left nil (the lifter only accepts nil/empty ones)
	default:
		panic(pathAbort{"unsupported", "unlift: kind " + rv.Kind().String()})
	}
}

func (l *lifter) lift(rv reflect.Value) value {
	switch rv.Kind() {
	case reflect.Bool:
		return rv.Bool()
	case reflect.Int:
		return int(rv.Int())
	case reflect.Int8:
		return int8(rv.Int())
	case reflect.Int16:
		return int16(rv.Int())
	case reflect.Int32:
		return int32(rv.Int())
	case reflect.Int64:
		return int64(rv.Int())
	case reflect.Uint:
		return uint(rv.Uint())
	case reflect.Uint8:
		return uint8(rv.Uint())
	case reflect.Uint16:
		return uint16(rv.Uint())
	case reflect.Uint32:
		return uint32(rv.Uint())
	case reflect.Uint64:
		return uint64(rv.Uint())
	case reflect.Float64:
		return rv.Float()
	case reflect.Float32:
		return float32(rv.Float())
	case reflect.String:
		return rv.String()
	case reflect.Slice:
		if rv.IsNil() {
			return []value(nil)
		}
		out := make([]value, rv.Len())
		for i := range out {
			out[i] = l.lift(rv.Index(i))
		}
		return out
	case reflect.Ptr:
		if rv.IsNil() {
			return (*value)(nil)
		}
		key := rv.UnsafePointer()
		if p, ok := l.memo[key]; ok {
			return p
		}
		p := new(value)
		l.memo[key] = p
		*p = l.lift(rv.Elem())
		if lit, ok := rv.Interface().(*sqlparser.Literal); ok {
			l.substitute(p, lit)
		}
		l.i.natives[p] = rv.Interface()
		return p
	case reflect.Interface:
		if rv.IsNil() {
			return iface{}
		}
		e := rv.Elem()
		return iface{t: l.i.m.typeOfReflect(e.Type()), v: l.lift(e)}
	case reflect.Struct:
		if !rv.CanAddr() {
			c := reflect.New(rv.Type()).Elem()
			c.Set(rv)
			rv = c
		}
		out := make(structure, rv.NumField())
		for i := range out {
			f := rv.Field(i)
			f = reflect.NewAt(f.Type(), unsafe.Pointer(f.UnsafeAddr())).Elem()
			out[i] = l.lift(f)
		}
		return out
	case reflect.Array:
		out := make(array, rv.Len())
		for i := range out {
			out[i] = l.lift(rv.Index(i))
		}
		return out
	case reflect.Map:
		if rv.IsNil() || rv.Len() == 0 {
			return (*omap)(nil)
		}
	case reflect.Func:
		if rv.IsNil() {
			return (*ssa.Function)(nil)
		}
	}
	panic(pathAbort{"engine", "lift: unsupported kind " + rv.Kind().String() + " " + rv.Type().String()})
}

// substitute replaces a placeholder literal by its symbolic value.
func (l *lifter) substitute(p *value, lit *sqlparser.Literal) {
	h, ok := l.holes[lit.Val]
	if !ok {
		return
	}
	l.used[lit.Val] = true
	st := (*p).(structure)
	// Literal{Type ValType; Val string}
	idx := -1
	rt := reflect.TypeOf(*lit)
	for i := 0; i < rt.NumField(); i++ {
		if rt.Field(i).Name == "Val" {
			idx = i
		}
	}
	if idx < 0 {
		panic(pathAbort{"engine", "lift: Literal.Val not found"})
	}
	switch h.kind {
	case "num":
		st[idx] = mkString(numSegs(h.val))
	case "int":
		st[idx] = mkString(intSegs(h.val))
	case "str":
		st[idx] = h.val
	}
}

func init() {
	externals[sqlparserPath+".Parse"] = func(fr *frame, args []value) value {
		text, ok := args[0].(string)
		if !ok {
			// the LALR parser is not encodable: a symbolic query text is
			// concretised (bounded enumeration of its bytes by the solver)
			fr.i.ex.Assumption("symbolic query text reaching sqlparser.Parse is concretised byte by byte (bounded enumeration)")
			return fr.concretiseStringCall(fr.i.ex.flatten(args[0]), func(s string) value {
				return externals[sqlparserPath+".Parse"](fr, []value{s})
			})
		}
		stmt, err := sqlparser.Parse(text)
		if err != nil {
			return tuple{iface{}, fr.i.newError(err.Error())}
		}
		l := &lifter{i: fr.i, memo: map[unsafe.Pointer]*value{}, holes: fr.i.harness.holes, used: map[string]bool{}}
		v := l.lift(reflect.ValueOf(&stmt).Elem())
		for ph := range fr.i.harness.holes {
			if strings.Contains(text, ph) && !l.used[ph] {
				panic(pathAbort{"engine", "SQL hole " + ph + " did not reach a Literal node"})
			}
		}
		return tuple{v, iface{}}
	}
	externals[sqlparserPath+".String"] = func(fr *frame, args []value) value {
		it := args[0].(iface)
		if it.t == nil {
			return ""
		}
		if p, ok := it.v.(*value); ok {
			if n, ok := fr.i.natives[p]; ok {
				if node, ok := n.(sqlparser.SQLNode); ok {
					return sqlparser.String(node)
				}
			}
		}
		// a node value built or copied by the library: lower it back to a
		// native node through reflection (the inverse of the lifter)
		if rt := fr.i.m.reflectTypeOf(it.t); rt != nil {
			rv := reflect.New(rt).Elem()
			fr.unlift(it.v, rv)
			if node, ok := rv.Interface().(sqlparser.SQLNode); ok {
				return sqlparser.String(node)
			}
		}
		panic(pathAbort{"unsupported", "sqlparser.String of a node that was not produced by Parse (" + it.t.String() + ")"})
	}
}

// ---- SQL holes (verif.SQL)

type harnessState struct {
	holes  map[string]hole
	nholes int
}

// sqlTemplate renders a '?' template with placeholder literals and records
// the symbolic values behind them.
func (fr *frame) sqlTemplate(tmpl string, holes []value) value {
	hs := fr.i.harness
	var b strings.Builder
	k := 0
	for i := 0; i < len(tmpl); i++ {
		if tmpl[i] != '?' {
			b.WriteByte(tmpl[i])
			continue
		}
		if k >= len(holes) {
			panic(pathAbort{"engine", "verif.SQL: more '?' than holes"})
		}
		h := holes[k].(iface)
		k++
		hs.nholes++
		switch v := h.v.(type) {
		case float64:
			b.WriteString(strconv.FormatFloat(v, 'g', -1, 64))
		case int:
			b.WriteString(strconv.Itoa(v))
		case string:
			b.WriteString(sqlQuote(v))
		case SymFloat:
			ph := fmt.Sprintf("9007199254%06d", hs.nholes)
			hs.holes[ph] = hole{"num", v}
			// a numeric literal token is non-negative and finite
			zero := F64Const(0)
			fr.i.ex.Assumption("numeric SQL holes are finite, non-negative (sign bit clear) literals")
			fr.i.ex.Assume(And(Not(FpIsNaN(v.T)), Not(FpIsInf(v.T)), FpLeq(zero, v.T), Not(Eq(v.T, F64Const(negZero())))))
			b.WriteString(ph)
		case SymInt:
			ph := fmt.Sprintf("9007199254%06d", hs.nholes)
			hs.holes[ph] = hole{"int", v}
			fr.i.ex.Assume(BvSle(BvConst(0, v.T.W), v.T))
			b.WriteString(ph)
		case SymString:
			ph := fmt.Sprintf("@@VH%d@@", hs.nholes)
			hs.holes[ph] = hole{"str", fr.i.ex.flatten(v)}
			b.WriteString("'" + ph + "'")
		default:
			panic(pathAbort{"engine", fmt.Sprintf("verif.SQL: unsupported hole type %T", h.v)})
		}
	}
	if k != len(holes) {
		panic(pathAbort{"engine", "verif.SQL: fewer '?' than holes"})
	}
	return b.String()
}

func negZero() float64 {
	z := 0.0
	return -z
}

// sqlQuote renders a MySQL string literal that the tokenizer decodes back
// to exactly s.
func sqlQuote(s string) string {
	var b strings.Builder
	b.WriteByte('\'')
	for i := 0; i < len(s); i++ {
		switch c := s[i]; c {
		case '\'':
			b.WriteString(`\'`)
		case '\\':
			b.WriteString(`\\`)
		case 0:
			b.WriteString(`\0`)
		case '\n':
			b.WriteString(`\n`)
		case '\r':
			b.WriteString(`\r`)
		case 0x1a:
			b.WriteString(`\Z`)
		default:
			b.WriteByte(c)
		}
	}
	b.WriteByte('\'')
	return b.String()
}

// nativeMySQLScan mirrors verif.MySQLScan (harness/zz_verif/tokens.go).
func nativeMySQLScan(sql string) (class []int, typ []int, start []int, end []int, val []string) {
	tkn := sqlparser.NewTestParser().NewStringTokenizer(sql)
	for i := 0; i < 4096; i++ {
		for tkn.Pos < len(sql) && (sql[tkn.Pos] == ' ' || sql[tkn.Pos] == '\n' || sql[tkn.Pos] == '\r' || sql[tkn.Pos] == '\t') {
			tkn.Pos++
		}
		s := tkn.Pos
		t, v := tkn.Scan()
		if t == 0 {
			break
		}
		c := 0
		switch t {
		case sqlparser.STRING:
			c = 1
		case sqlparser.ID:
			c = 2
		case sqlparser.LEX_ERROR:
			c = 3
		case sqlparser.INTEGRAL, sqlparser.DECIMAL, sqlparser.FLOAT:
			c = 4
		case sqlparser.COMMENT:
			c = 5
		}
		class = append(class, c)
		typ = append(typ, t)
		start = append(start, s)
		end = append(end, tkn.Pos)
		val = append(val, v)
		if t == sqlparser.LEX_ERROR {
			break
		}
	}
	return
}
