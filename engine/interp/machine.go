// Machine: loading /repo (with overlay harness files) into SSA and
// exploring a harness function on a pool of workers.

package interp

import (
	"fmt"
	"go/token"
	"go/types"
	"os"
	"reflect"
	"runtime/debug"
	"sort"
	"strings"
	"sync"
	"time"

	"golang.org/x/tools/go/packages"
	"golang.org/x/tools/go/ssa"
	"golang.org/x/tools/go/ssa/ssautil"
)

type Machine struct {
	Prog      *ssa.Program
	Pkgs      []*ssa.Package
	byPath    map[string]*ssa.Package
	initRun   map[string]bool
	interpPkg map[string]bool
	typeMu    sync.Mutex
	typeCache map[reflect.Type]types.Type
	LoadTime  time.Duration
	BuildTime time.Duration
	RootPkgs  []string // packages whose init is run at the start of every path
	Tier      int      // 0 quick, 1 thorough (verif.Tier())
}

const genqlPath = "github.com/vedadiyan/genql"

// Load type-checks the packages matching patterns in dir with the given
// overlay and builds SSA for the whole program.
func Load(dir string, overlay map[string][]byte, patterns ...string) (*Machine, error) {
	t0 := time.Now()
	cfg := &packages.Config{
		Mode:    packages.LoadAllSyntax,
		Dir:     dir,
		Overlay: overlay,
		Env:     append(os.Environ(), "GOFLAGS=-mod=mod", "GOPROXY=off", "GOSUMDB=off", "GOTOOLCHAIN=local"),
	}
	pkgs, err := packages.Load(cfg, patterns...)
	if err != nil {
		return nil, err
	}
	var errs []string
	packages.Visit(pkgs, nil, func(p *packages.Package) {
		for _, e := range p.Errors {
			errs = append(errs, e.Error())
		}
	})
	if len(errs) > 0 {
		return nil, fmt.Errorf("load errors:\n%s", strings.Join(errs, "\n"))
	}
	m := &Machine{byPath: map[string]*ssa.Package{}, typeCache: map[reflect.Type]types.Type{}}
	m.LoadTime = time.Since(t0)
	t1 := time.Now()
	prog, spkgs := ssautil.AllPackages(pkgs, ssa.InstantiateGenerics)
	prog.Build()
	m.BuildTime = time.Since(t1)
	m.Prog = prog
	for _, p := range prog.AllPackages() {
		m.byPath[p.Pkg.Path()] = p
	}
	for _, p := range spkgs {
		if p != nil {
			m.Pkgs = append(m.Pkgs, p)
			m.RootPkgs = append(m.RootPkgs, p.Pkg.Path())
		}
	}
	m.initRun = map[string]bool{"unicode/utf8": true, "math/bits": true, "sort": true, "maps": true, "slices": true, "cmp": true, "iter": true}
	m.interpPkg = map[string]bool{"unicode/utf8": true, "math/bits": true, "sort": true, "maps": true, "slices": true, "cmp": true, "iter": true, "errors": true, sqlparserPath: true}
	for path := range m.byPath {
		if path == genqlPath || strings.HasPrefix(path, genqlPath+"/") {
			m.initRun[path] = true
			m.interpPkg[path] = true
		}
	}
	return m, nil
}

func (m *Machine) interpretable(fn *ssa.Function) bool {
	if fn.Pkg == nil {
		// synthetic wrappers, bound methods, instantiations: use the origin's package
		if o := fn.Origin(); o != nil && o.Pkg != nil {
			return m.interpPkg[o.Pkg.Pkg.Path()]
		}
		if fn.Synthetic != "" {
			// wrapper/thunk/bound: its callee is checked when called
			return true
		}
		return false
	}
	path := fn.Pkg.Pkg.Path()
	if m.interpPkg[path] {
		return true
	}
	if path == "runtime" && strings.Contains(fn.String(), "errorString") {
		return true
	}
	return false
}

func (m *Machine) globalAllowed(g *ssa.Global) bool {
	switch g.String() {
	case "encoding/base64.StdEncoding", "encoding/base64.URLEncoding":
		return true
	}
	// init guards are always readable
	return strings.HasPrefix(g.Name(), "init$guard")
}

func (m *Machine) skipInit(fn *ssa.Function) bool {
	if fn.Name() == "init" && fn.Pkg != nil && fn.Parent() == nil && fn.Signature.Recv() == nil {
		return !m.initRun[fn.Pkg.Pkg.Path()]
	}
	return false
}

// LookupFunc finds a package-level function "pkgpath.Name".
func (m *Machine) LookupFunc(pkgPath, name string) *ssa.Function {
	p := m.byPath[pkgPath]
	if p == nil {
		return nil
	}
	return p.Func(name)
}

// HarnessFuncs lists package-level functions with the given prefix in the
// root packages.
func (m *Machine) HarnessFuncs(prefix string) []*ssa.Function {
	var out []*ssa.Function
	for _, p := range m.Pkgs {
		for name, mem := range p.Members {
			if f, ok := mem.(*ssa.Function); ok && strings.HasPrefix(name, prefix) {
				out = append(out, f)
			}
		}
	}
	sort.Slice(out, func(i, j int) bool { return out[i].String() < out[j].String() })
	return out
}

// ---------------------------------------------------------------- exploring

type Config struct {
	Workers       int
	Solver        SolverKind
	SolverTimeout int // ms per query
	Budgets       Budgets
	Deadline      time.Time
	MaxFailures   int
	Trace         bool
}

type PathSample struct {
	Decisions string   `json:"decisions"`
	PC        []string `json:"path_condition"`
	Model     string   `json:"model,omitempty"`
	Outcome   string   `json:"outcome"`
	Choices   string   `json:"choices,omitempty"`
}

type Result struct {
	Harness          string
	Stats            Stats
	Failures         []Failure
	FailureCounts    map[string]int
	Inconclusive     []string
	BoundExceed      []string
	BoundPaths       int64
	Unsupported      []string
	UnsupportedPaths int64
	EngineErrors     []string
	Reached          map[string]int64
	Functions        map[string]bool
	Blocks           map[*ssa.BasicBlock]bool
	Intrinsics       map[string]bool
	Assumptions      map[string]bool
	Samples          []PathSample
	PassSamples      []Failure // sampled passing paths (inputs + model) for native validation
	passSeen         int64
	SolverTime       time.Duration
	SolverQ          int
	SolverTime2      time.Duration
	SolverQ2         int
	Wall             time.Duration
	Complete         bool // queue drained within budgets
	MaxThreads       int
	Schedules        int64
}

type explorePool struct {
	mu        sync.Mutex
	cond      *sync.Cond
	queue     []WorkItem
	busy      int
	stop      bool
	res       *Result
	m         *Machine
	cfg       Config
	entry     *ssa.Function
	started   int64
	failCount map[string]int
}

func (m *Machine) Explore(entry *ssa.Function, cfg Config) *Result {
	if cfg.Workers <= 0 {
		cfg.Workers = 1
	}
	if cfg.SolverTimeout <= 0 {
		cfg.SolverTimeout = 10000
	}
	if cfg.Budgets.MaxSteps == 0 {
		cfg.Budgets.MaxSteps = 2_000_000
	}
	if cfg.Budgets.MaxDepth == 0 {
		cfg.Budgets.MaxDepth = 400
	}
	if cfg.Budgets.MaxDecisions == 0 {
		cfg.Budgets.MaxDecisions = 4000
	}
	if cfg.MaxFailures == 0 {
		cfg.MaxFailures = 600
	}
	res := &Result{Harness: entry.String(), Reached: map[string]int64{}, Functions: map[string]bool{}, Blocks: map[*ssa.BasicBlock]bool{}, Intrinsics: map[string]bool{}, Assumptions: map[string]bool{}}
	p := &explorePool{res: res, m: m, cfg: cfg, entry: entry, failCount: map[string]int{}}
	res.FailureCounts = map[string]int{}
	p.cond = sync.NewCond(&p.mu)
	p.queue = []WorkItem{{}}
	t0 := time.Now()
	var wg sync.WaitGroup
	for w := 0; w < cfg.Workers; w++ {
		wg.Add(1)
		go func(id int) {
			defer wg.Done()
			p.worker(id)
		}(w)
	}
	wg.Wait()
	res.Wall = time.Since(t0)
	res.Complete = !p.stop && len(p.queue) == 0
	return res
}

func (p *explorePool) take() (WorkItem, bool) {
	p.mu.Lock()
	defer p.mu.Unlock()
	for {
		if p.stop {
			return WorkItem{}, false
		}
		if n := len(p.queue); n > 0 {
			it := p.queue[n-1]
			p.queue = p.queue[:n-1]
			p.busy++
			p.started++
			return it, true
		}
		if p.busy == 0 {
			p.cond.Broadcast()
			return WorkItem{}, false
		}
		p.cond.Wait()
	}
}

func (p *explorePool) done(forks []WorkItem) {
	p.mu.Lock()
	// push in reverse so that the first alternative is explored first (DFS)
	for i := len(forks) - 1; i >= 0; i-- {
		p.queue = append(p.queue, forks[i])
	}
	p.busy--
	p.cond.Broadcast()
	p.mu.Unlock()
}

func (p *explorePool) worker(id int) {
	solver := NewSolver(p.cfg.Solver, p.cfg.SolverTimeout)
	defer solver.Close()
	ex := newExplorer(solver, p.cfg.Budgets)
	funcs := map[*ssa.Function]bool{}
	for {
		item, ok := p.take()
		if !ok {
			break
		}
		pr := p.m.runPath(ex, p.entry, item, funcs)
		p.mu.Lock()
		r := p.res
		for _, f := range pr.failures {
			key := f.Kind + "|" + f.Label + "|" + fmt.Sprint(f.Choices)
			p.failCount[key]++
			r.FailureCounts[key]++
			if p.failCount[key] <= 3 && len(r.Failures) < p.cfg.MaxFailures {
				r.Failures = append(r.Failures, f)
			}
		}
		for k := range pr.reached {
			r.Reached[k]++
		}
		for k := range ex.assumptions {
			r.Assumptions[k] = true
		}
		for k := range ex.intrinsics {
			r.Intrinsics[k] = true
		}
		for _, n := range pr.notes {
			if len(r.Inconclusive) < 50 {
				r.Inconclusive = append(r.Inconclusive, n)
			}
		}
		switch pr.outcome {
		case "bound":
			dup := false
			for _, b := range r.BoundExceed {
				if b == pr.detail {
					dup = true
				}
			}
			if !dup && len(r.BoundExceed) < 50 {
				r.BoundExceed = append(r.BoundExceed, pr.detail)
			}
			r.BoundPaths++
		case "unsupported":
			dup := false
			for _, b := range r.Unsupported {
				if b == pr.detail {
					dup = true
				}
			}
			if !dup && len(r.Unsupported) < 50 {
				r.Unsupported = append(r.Unsupported, pr.detail)
			}
			r.UnsupportedPaths++
		case "engine":
			if len(r.EngineErrors) < 20 {
				r.EngineErrors = append(r.EngineErrors, pr.detail)
			}
		}
		if pr.threads > r.MaxThreads {
			r.MaxThreads = pr.threads
		}
		if pr.pass != nil {
			// reservoir-style thinning: keep at most 24 spread over the run
			r.passSeen++
			if len(r.PassSamples) < 24 {
				r.PassSamples = append(r.PassSamples, *pr.pass)
			} else if r.passSeen%int64(1+r.passSeen/24) == 0 {
				r.PassSamples[int(r.passSeen)%24] = *pr.pass
			}
		}
		if pr.sample != nil && (len(r.Samples) < 6 || (pr.outcome != "ok" && len(r.Samples) < 12)) {
			r.Samples = append(r.Samples, *pr.sample)
		}
		if !p.cfg.Deadline.IsZero() && time.Now().After(p.cfg.Deadline) {
			p.stop = true
			r.BoundExceed = append(r.BoundExceed, "wall-clock deadline reached before the path queue drained")
		}
		if p.cfg.Budgets.MaxPaths > 0 && p.started >= p.cfg.Budgets.MaxPaths {
			p.stop = true
			r.BoundExceed = append(r.BoundExceed, fmt.Sprintf("path budget %d reached before the path queue drained", p.cfg.Budgets.MaxPaths))
		}
		p.mu.Unlock()
		p.done(pr.forks)
	}
	p.mu.Lock()
	p.res.Stats.add(&ex.stats)
	p.res.SolverTime += solver.Time
	p.res.SolverQ += solver.Queries
	if ex.solver2 != nil {
		p.res.SolverTime2 += ex.solver2.Time
		p.res.SolverQ2 += ex.solver2.Queries
		ex.solver2.Close()
	}
	for f := range funcs {
		p.res.Functions[f.String()] = true
	}
	for b := range ex.blocks {
		p.res.Blocks[b] = true
	}
	p.cond.Broadcast()
	p.mu.Unlock()
}

type pathResult struct {
	outcome  string // ok | infeasible | bound | unsupported | engine | failure
	detail   string
	failures []Failure
	forks    []WorkItem
	reached  map[string]bool
	notes    []string
	sample   *PathSample
	threads  int
	pass     *Failure
}

func (m *Machine) newInterpreter(ex *Explorer, funcs map[*ssa.Function]bool) *interpreter {
	i := &interpreter{
		prog:      m.Prog,
		globals:   make(map[*ssa.Global]*value),
		sizes:     &types.StdSizes{WordSize: 8, MaxAlign: 8},
		ex:        ex,
		m:         m,
		funcsSeen: funcs,
		natives:   map[*value]any{},
		harness:   &harnessState{holes: map[string]hole{}},
		mapSites:  defaultMapSites,
	}
	i.sched = newScheduler(i)
	runtimePkg := m.Prog.ImportedPackage("runtime")
	if runtimePkg == nil {
		panic("ssa.Program doesn't include runtime package")
	}
	i.runtimeErrorString = runtimePkg.Type("errorString").Object().Type()
	initReflect(i)
	return i
}

var defaultMapSites = map[string]bool{
	genqlPath + ".ExecGroupBy":                       true,
	"(*" + genqlPath + ".Join).HashJoinFunc":         true,
	"(*" + genqlPath + ".Join).ParallelHashJoinFunc": true,
	"(*" + genqlPath + ".Join).JoinFunc":             true,
	"(*" + genqlPath + ".Join).ParallelJoinFunc":     true,
	"(*" + genqlPath + ".Join).JoinMatchFunc":        true,
	genqlPath + ".ComparisonExpr":                    true,
	genqlPath + ".DefaultKeyFunc":                    true,
	genqlPath + ".MixObject":                         true,
	genqlPath + ".Import":                            true,
}

func (m *Machine) runPath(ex *Explorer, entry *ssa.Function, item WorkItem, funcs map[*ssa.Function]bool) (pr pathResult) {
	ex.reset(item)
	i := m.newInterpreter(ex, funcs)
	// base64 encodings are lifted from the native package
	m.seedGlobals(i)
	pr.outcome = "ok"
	func() {
		defer func() {
			if r := recover(); r != nil {
				switch r := r.(type) {
				case pathAbort:
					switch r.why {
					case "infeasible":
						pr.outcome = "infeasible"
					case "done":
						pr.outcome = "ok"
					default:
						pr.outcome, pr.detail = r.why, r.detail
					}
				case targetPanic:
					ex.Fail("panic", "panic-escape", "panic escaped the harness: "+toString(r.v))
					pr.outcome = "failure"
				case rtErr:
					ex.Fail("panic", "panic-escape", "run-time panic escaped the harness: "+r.msg)
					pr.outcome = "failure"
				default:
					pr.outcome, pr.detail = "engine", fmt.Sprintf("%v\n%s", r, debug.Stack())
				}
			}
		}()
		defer i.sched.shutdown()
		for _, path := range m.RootPkgs {
			if p := m.byPath[path]; p != nil {
				if init := p.Func("init"); init != nil {
					call(i, nil, token.NoPos, init, nil)
				}
			}
		}
		call(i, nil, token.NoPos, entry, nil)
	}()
	ex.stats.Paths++
	ex.stats.Steps += ex.steps
	if pr.outcome == "infeasible" {
		ex.stats.Infeasible++
	}
	if ex.solverDec > 0 || len(ex.pc) > 0 {
		ex.stats.PathsNontriv++
	}
	pr.failures = ex.failures
	if len(pr.failures) > 0 && pr.outcome == "ok" {
		pr.outcome = "failure"
	}
	if pr.outcome == "ok" && ex.reached["end"] && len(ex.notes) == 0 {
		if m := ex.curModel(); m != nil {
			f := ex.snapshotFailure("pass", "", "", m)
			pr.pass = &f
		}
	}
	pr.forks = ex.forks
	pr.reached = ex.reached
	pr.threads = len(i.sched.threads)
	for _, n := range ex.notes {
		pr.notes = append(pr.notes, n)
	}
	if ex.unknownPC {
		pr.notes = append(pr.notes, "path condition satisfiability unknown")
	}
	if pr.outcome != "infeasible" {
		s := &PathSample{Outcome: pr.outcome, Decisions: fmt.Sprint(ex.taken)}
		if pr.detail != "" {
			d := pr.detail
			if len(d) > 300 {
				d = d[:300]
			}
			s.Outcome += ": " + d
		}
		for k, c := range ex.pc {
			if k >= 8 {
				s.PC = append(s.PC, fmt.Sprintf("... %d more", len(ex.pc)-k))
				break
			}
			t := c.SMT()
			if len(t) > 240 {
				t = t[:240] + "…"
			}
			s.PC = append(s.PC, t)
		}
		var cs []string
		for _, c := range ex.choices {
			cs = append(cs, fmt.Sprintf("%s=%d/%d", c.Label, c.Alt, c.N))
		}
		s.Choices = strings.Join(cs, " ")
		if mm := ex.model; ex.modelValid && mm != nil {
			var ks []string
			for k := range mm {
				ks = append(ks, k)
			}
			sort.Strings(ks)
			var b strings.Builder
			for n, k := range ks {
				if n >= 8 {
					b.WriteString(" …")
					break
				}
				fmt.Fprintf(&b, "%s=%#x ", k, mm[k])
			}
			s.Model = b.String()
		}
		pr.sample = s
	}
	return pr
}

func (m *Machine) seedGlobals(i *interpreter) {
	if p := m.byPath["encoding/base64"]; p != nil {
		for name, enc := range map[string]any{"StdEncoding": b64Std, "URLEncoding": b64URL} {
			if g, ok := p.Members[name].(*ssa.Global); ok {
				var obj value = nativeObj{enc}
				var cell value = &obj
				i.globals[g] = &cell
			}
		}
	}
}

// RunUnitTest executes one `func TestXxx(*testing.T)` of the repository's
// own suite inside the engine (every path, if the test branches on a
// symbolic value such as the clock) and returns the (sub)test outcomes.
func (m *Machine) RunUnitTest(fn *ssa.Function, cfg Config) (outcomes []TestOutcome, log []string, problems []string) {
	solver := NewSolver(cfg.Solver, 10000)
	defer solver.Close()
	ex := newExplorer(solver, Budgets{MaxSteps: 50_000_000, MaxDepth: 400, MaxDecisions: 100000})
	queue := []WorkItem{{}}
	seen := map[string]bool{}
	funcs := map[*ssa.Function]bool{}
	for len(queue) > 0 && len(problems) == 0 {
		item := queue[len(queue)-1]
		queue = queue[:len(queue)-1]
		ex.reset(item)
		i := m.newInterpreter(ex, funcs)
		m.seedGlobals(i)
		func() {
			defer func() {
				if r := recover(); r != nil {
					switch r := r.(type) {
					case pathAbort:
						if r.why != "infeasible" && r.why != "done" {
							problems = append(problems, r.why+": "+r.detail)
						}
					default:
						problems = append(problems, fmt.Sprintf("%v\n%s", r, debug.Stack()))
					}
				}
			}()
			defer i.sched.shutdown()
			for _, path := range m.RootPkgs {
				if p := m.byPath[path]; p != nil {
					if init := p.Func("init"); init != nil {
						call(i, nil, token.NoPos, init, nil)
					}
				}
			}
			t, st := i.newT(fn.Name(), nil)
			i.runTestFunc(nil, fn, t, st)
			i.sched.drain()
		}()
		for _, o := range i.testOutcomes {
			key := o.Name
			if !o.Passed {
				key += "#fail"
			}
			if !seen[key] {
				seen[key] = true
				outcomes = append(outcomes, o)
			}
		}
		log = append(log, i.testLog...)
		queue = append(queue, ex.forks...)
	}
	return
}

// BlockCoverage reports, for every function of the target packages declared
// outside the harness overlay, which basic blocks were executed.
type BlockInfo struct {
	Func  string
	Index int
	Pos   string
	Seen  bool
}

func (m *Machine) BlockCoverage(seen map[*ssa.BasicBlock]bool, isTarget func(file string) bool) []BlockInfo {
	var out []BlockInfo
	var fns []*ssa.Function
	done := map[*ssa.Function]bool{}
	var visit func(fn *ssa.Function)
	visit = func(fn *ssa.Function) {
		if fn == nil || done[fn] || fn.Blocks == nil {
			return
		}
		done[fn] = true
		for _, a := range fn.AnonFuncs {
			visit(a)
		}
		if !fn.Pos().IsValid() || !isTarget(m.Prog.Fset.Position(fn.Pos()).Filename) {
			return
		}
		if fn.TypeParams().Len() > 0 && len(fn.TypeArgs()) == 0 {
			return // generic origin: the executed instances are listed
		}
		fns = append(fns, fn)
	}
	for _, pkg := range m.Pkgs {
		for _, mem := range pkg.Members {
			switch mem := mem.(type) {
			case *ssa.Function:
				visit(mem)
			case *ssa.Type:
				if _, ok := mem.Type().Underlying().(*types.Interface); ok {
					continue
				}
				for _, t := range []types.Type{mem.Type(), types.NewPointer(mem.Type())} {
					ms := m.Prog.MethodSets.MethodSet(t)
					for i := 0; i < ms.Len(); i++ {
						if ms.At(i).Obj().Pkg() == pkg.Pkg && len(ms.At(i).Index()) == 1 {
							visit(m.Prog.MethodValue(ms.At(i)))
						}
					}
				}
			}
		}
	}
	for b := range seen {
		visit(b.Parent())
	}
	sort.Slice(fns, func(i, j int) bool { return fns[i].String() < fns[j].String() })
	for _, fn := range fns {
		for _, b := range fn.Blocks {
			pos := ""
			for _, in := range b.Instrs {
				if in.Pos().IsValid() {
					p := m.Prog.Fset.Position(in.Pos())
					pos = fmt.Sprintf("%s:%d", p.Filename, p.Line)
					break
				}
			}
			out = append(out, BlockInfo{fn.String(), b.Index, pos, seen[b]})
		}
	}
	return out
}
