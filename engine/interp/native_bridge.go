// Generic bridge to standard-library functions without a dedicated
// intrinsic: concrete arguments are converted to native Go values and the
// real function is called; symbolic scalar/string arguments are first
// concretised (bounded enumeration by the solver, cap 24 per value/byte).

package interp

import (
	"fmt"
	"reflect"
)

var errorReflectType = reflect.TypeOf((*error)(nil)).Elem()

// toNativeArg converts an interpreter value to a native value of type rt.
func (fr *frame) toNativeArg(v value, rt reflect.Type) reflect.Value {
	switch rt.Kind() {
	case reflect.String:
		s := fr.i.ex.flatten(v)
		if cs, ok := s.(string); ok {
			return reflect.ValueOf(cs).Convert(rt)
		}
		segs := strSegs(s)
		b := make([]byte, len(segs))
		for i, sg := range segs {
			b[i] = byte(fr.i.ex.ConcretiseBV(sg.T, fr.i.ex.concCap(), "string byte"))
		}
		return reflect.ValueOf(string(b)).Convert(rt)
	case reflect.Bool:
		switch b := v.(type) {
		case bool:
			return reflect.ValueOf(b).Convert(rt)
		case SymBool:
			return reflect.ValueOf(fr.i.ex.Branch(b.T)).Convert(rt)
		}
	case reflect.Int, reflect.Int8, reflect.Int16, reflect.Int32, reflect.Int64:
		return reflect.ValueOf(fr.concreteInt(v, "native argument")).Convert(rt)
	case reflect.Uint, reflect.Uint8, reflect.Uint16, reflect.Uint32, reflect.Uint64:
		return reflect.ValueOf(uint64(fr.concreteInt(v, "native argument"))).Convert(rt)
	case reflect.Float64, reflect.Float32:
		switch f := v.(type) {
		case float64:
			return reflect.ValueOf(f).Convert(rt)
		case float32:
			return reflect.ValueOf(f).Convert(rt)
		case SymFloat:
			return reflect.ValueOf(fr.i.ex.concretiseF64(FpToFp(f.T, SF64))).Convert(rt)
		}
	case reflect.Slice:
		switch rt.Elem().Kind() {
		case reflect.Uint8:
			s := fr.toNativeArg(bytesToString(v), reflect.TypeOf("")).String()
			if v.([]value) == nil {
				return reflect.Zero(rt)
			}
			return reflect.ValueOf([]byte(s)).Convert(rt)
		case reflect.String:
			in := v.([]value)
			out := reflect.MakeSlice(rt, len(in), len(in))
			for i, e := range in {
				out.Index(i).Set(fr.toNativeArg(e, rt.Elem()))
			}
			return out
		}
	}
	panic(pathAbort{"unsupported", fmt.Sprintf("native bridge: cannot convert %T to %s", v, rt)})
}

func (fr *frame) fromNative(rv reflect.Value) value {
	rt := rv.Type()
	if rt == errorReflectType || rt.Implements(errorReflectType) && rt.Kind() == reflect.Interface {
		if rv.IsNil() {
			return iface{}
		}
		return fr.i.newError(rv.Interface().(error).Error())
	}
	switch rt.Kind() {
	case reflect.String:
		return rv.String()
	case reflect.Bool:
		return rv.Bool()
	case reflect.Int:
		return int(rv.Int())
	case reflect.Int8:
		return int8(rv.Int())
	case reflect.Int16:
		return int16(rv.Int())
	case reflect.Int32:
		return int32(rv.Int())
	case reflect.Int64:
		return rv.Int()
	case reflect.Uint:
		return uint(rv.Uint())
	case reflect.Uint8:
		return uint8(rv.Uint())
	case reflect.Uint16:
		return uint16(rv.Uint())
	case reflect.Uint32:
		return uint32(rv.Uint())
	case reflect.Uint64:
		return rv.Uint()
	case reflect.Float64:
		return rv.Float()
	case reflect.Float32:
		return float32(rv.Float())
	case reflect.Slice:
		if rv.IsNil() {
			return []value(nil)
		}
		out := make([]value, rv.Len())
		for i := range out {
			out[i] = fr.fromNative(rv.Index(i))
		}
		return out
	}
	panic(pathAbort{"unsupported", "native bridge: cannot convert result " + rt.String()})
}

// nativeBridge returns an intrinsic for a table function, or nil.
func nativeBridge(name string) externalFn {
	fn, ok := nativeFuncs[name]
	if !ok {
		return nil
	}
	ft := fn.Type()
	return func(fr *frame, args []value) value {
		if len(args) != ft.NumIn() {
			panic(pathAbort{"engine", "native bridge: arity mismatch for " + name})
		}
		fr.i.ex.intrinsics[name+" (native bridge)"] = true
		in := make([]reflect.Value, len(args))
		for i, a := range args {
			in[i] = fr.toNativeArg(a, ft.In(i))
		}
		var out []reflect.Value
		func() {
			defer func() {
				if r := recover(); r != nil {
					// a native run-time panic of the library function is the
					// target's panic too
					if _, isAbort := r.(pathAbort); isAbort {
						panic(r)
					}
					panic(rtErr{fmt.Sprint(r)})
				}
			}()
			out = fn.Call(in)
		}()
		switch len(out) {
		case 0:
			return nil
		case 1:
			return fr.fromNative(out[0])
		}
		t := make(tuple, len(out))
		for i, o := range out {
			t[i] = fr.fromNative(o)
		}
		return t
	}
}
