// Insertion-ordered maps with possibly symbolic keys. Replaces the
// interpreter's use of native Go maps so that iteration order is
// deterministic (and, at configured sites, a decision).

package interp

import (
	"fmt"
	"go/types"
)

type omap struct {
	kt      types.Type
	keys    []value
	vals    []value
	idx     map[value]int // concrete builtin keys only; nil once a symbolic or composite key is present
	version int
}

func makeMap(kt types.Type, reserve int64) value {
	m := &omap{kt: kt}
	if usesBuiltinMap(kt) {
		m.idx = map[value]int{}
	}
	return m
}

func hashableKey(k value) bool {
	switch k.(type) {
	case bool, int, int8, int16, int32, int64, uint, uint8, uint16, uint32, uint64, uintptr, float32, float64, string, *value, chan value:
		return true
	}
	return false
}

func (m *omap) len() int {
	if m == nil {
		return 0
	}
	return len(m.keys)
}

// find returns the position of key k, deciding symbolic key equalities
// through the explorer. -1 if absent.
func (m *omap) find(fr *frame, k value) int {
	if m == nil {
		return -1
	}
	if m.idx != nil && hashableKey(k) {
		if f, ok := k.(float64); ok && f != f {
			return -1
		}
		if i, ok := m.idx[k]; ok {
			return i
		}
		return -1
	}
	var conds []*Term
	var pos []int
	none := TrueT
	for i, ki := range m.keys {
		eq := fr.equalsV(m.kt, ki, k)
		t := boolTerm(eq)
		if t.IsConst() {
			if t.U == 1 {
				if len(conds) == 0 {
					return i
				}
				conds = append(conds, And(none, t))
				pos = append(pos, i)
				none = FalseT
				break
			}
			continue
		}
		conds = append(conds, And(none, t))
		pos = append(pos, i)
		none = And(none, Not(t))
	}
	if len(conds) == 0 {
		return -1
	}
	conds = append(conds, none)
	pos = append(pos, -1)
	alt := fr.i.ex.DecideCond(conds, DkMapKey)
	return pos[alt]
}

func (m *omap) lookup(fr *frame, k value) (value, bool) {
	i := m.find(fr, k)
	if i < 0 {
		return nil, false
	}
	return m.vals[i], true
}

func (m *omap) insert(fr *frame, k, v value) {
	if m == nil {
		panic("assignment to entry in nil map")
	}
	i := m.find(fr, k)
	if i >= 0 {
		m.vals[i] = v
		return
	}
	if m.idx != nil {
		if hashableKey(k) {
			m.idx[k] = len(m.keys)
		} else {
			m.idx = nil
		}
	}
	m.keys = append(m.keys, k)
	m.vals = append(m.vals, v)
	m.version++
}

func (m *omap) delete(fr *frame, k value) {
	if m == nil {
		return
	}
	i := m.find(fr, k)
	if i < 0 {
		return
	}
	m.keys = append(m.keys[:i:i], m.keys[i+1:]...)
	m.vals = append(m.vals[:i:i], m.vals[i+1:]...)
	if m.idx != nil {
		m.idx = map[value]int{}
		for j, kj := range m.keys {
			m.idx[kj] = j
		}
	}
	m.version++
}

// omapIter iterates over a snapshot of the keys in the chosen order;
// entries deleted before they are reached are skipped.
type omapIter struct {
	m     *omap
	fr    *frame
	keys  []value
	order []int
	i     int
}

func (it *omapIter) next() tuple {
	for it.i < len(it.order) {
		k := it.keys[it.order[it.i]]
		it.i++
		// still present? (identity / concrete lookup only, no decisions)
		for j, kj := range it.m.keys {
			if sameKeyIdentity(kj, k) {
				return tuple{true, k, it.m.vals[j]}
			}
		}
	}
	return tuple{false, nil, nil}
}

func sameKeyIdentity(a, b value) bool {
	if hashableKey(a) && hashableKey(b) {
		return a == b
	}
	sa, ok1 := a.(SymString)
	sb, ok2 := b.(SymString)
	if ok1 && ok2 {
		if len(sa.S) != len(sb.S) {
			return false
		}
		for i := range sa.S {
			if sa.S[i].K != sb.S[i].K || !SameTerm(sa.S[i].T0(), sb.S[i].T0()) {
				return false
			}
		}
		return true
	}
	ia, ok1 := a.(iface)
	ib, ok2 := b.(iface)
	if ok1 && ok2 {
		return sameType(ia.t, ib.t) && (ia.t == nil || sameKeyIdentity(ia.v, ib.v))
	}
	return false
}

// T0 returns a term identifying the segment (the digest preimage is
// summarised by its first term; used for identity checks only).
func (s Seg) T0() *Term {
	if s.K == SegDigest {
		h := BvConst(uint64(len(s.Pre.S)), 64)
		for _, p := range s.Pre.S {
			h = mk(OpConcat, SBV, 0, h, p.T0())
		}
		return h
	}
	return s.T
}

func permutations(n int) [][]int {
	var out [][]int
	p := make([]int, n)
	for i := range p {
		p[i] = i
	}
	var rec func(k int)
	rec = func(k int) {
		if k == n {
			out = append(out, append([]int(nil), p...))
			return
		}
		for i := k; i < n; i++ {
			p[k], p[i] = p[i], p[k]
			rec(k + 1)
			p[k], p[i] = p[i], p[k]
		}
	}
	rec(0)
	return out
}

// mapOrders lists the iteration orders explored for a map of n entries:
// all permutations while n! <= 24, otherwise identity, reverse and all
// rotations.
func mapOrders(n int) [][]int {
	if n <= 4 {
		return permutations(n)
	}
	var out [][]int
	for r := 0; r < n; r++ {
		p := make([]int, n)
		for i := range p {
			p[i] = (i + r) % n
		}
		out = append(out, p)
	}
	rev := make([]int, n)
	for i := range rev {
		rev[i] = n - 1 - i
	}
	out = append(out, rev)
	return out
}

func (fr *frame) rangeMap(m *omap) iter {
	n := m.len()
	order := make([]int, n)
	for i := range order {
		order[i] = i
	}
	if n >= 2 && fr.i.mapOrderAt(fr) {
		orders := mapOrders(n)
		alt := fr.i.ex.Choose(len(orders), DkMapOrder, "")
		order = orders[alt]
	} else if n >= 2 && fr.i.mapOrder == 3 && fr.i.inTargetCode(fr) {
		// every other map range of the library: one decision per path,
		// insertion order everywhere or reverse order everywhere
		if fr.i.mapReverse == 0 {
			fr.i.mapReverse = 1 + fr.i.ex.Choose(2, DkMapOrder, "")
		}
		if fr.i.mapReverse == 2 {
			for i := range order {
				order[i] = n - 1 - i
			}
		}
	}
	var keys []value
	if m != nil {
		keys = append([]value(nil), m.keys...)
	}
	return &omapIter{m: m, fr: fr, keys: keys, order: order}
}

func (m *omap) String() string { return fmt.Sprintf("omap(%d)", m.len()) }
