// Cooperative scheduler for interpreted goroutines, sync primitives and a
// vector-clock happens-before race monitor.
//
// Exactly one interpreted thread runs at a time (baton passing between real
// goroutines). Scheduling points are: go, thread exit, Mutex/RWMutex
// lock/unlock, WaitGroup Add/Done/Wait. In "explore" mode the next thread
// at each point is a decision, so the schedule is part of the decision
// vector; otherwise the current thread keeps running until it blocks or
// ends and the runnable thread with the lowest id continues.

package interp

import (
	"fmt"
	"go/token"
	"go/types"
	"golang.org/x/tools/go/ssa"
	"runtime/debug"
	"sort"
)

type thread struct {
	id      int
	wake    chan struct{}
	exit    chan struct{}
	done    bool
	started bool
	blocked func() bool
	vc      map[int]int
	what    string
}

type epoch struct{ tid, clk int }

type shadow struct {
	w     epoch
	wpos  string
	reads map[int]int
	rpos  map[int]string
}

type mutexState struct {
	locked  bool
	readers int
	vc      map[int]int // released by writers
	rvc     map[int]int // released by readers
}

type wgState struct {
	n  int
	vc map[int]int
}

type scheduler struct {
	i       *interpreter
	threads []*thread
	cur     *thread
	explore bool
	race    bool
	abort   *pathAbort
	shadows map[any]*shadow
	mutexes map[*value]*mutexState
	wgs     map[*value]*wgState
	raced   map[string]bool
	nsched  int
	// preemption bounding (CHESS): a schedule may switch away from a
	// thread that could continue at most maxPreempt times
	maxPreempt int
	preempts   int
}

func newScheduler(i *interpreter) *scheduler {
	s := &scheduler{i: i, maxPreempt: 2, shadows: map[any]*shadow{}, mutexes: map[*value]*mutexState{}, wgs: map[*value]*wgState{}, raced: map[string]bool{}}
	main := &thread{id: 0, wake: make(chan struct{}, 1), vc: map[int]int{0: 1}, started: true, what: "main"}
	s.threads = []*thread{main}
	s.cur = main
	return s
}

func copyVC(a map[int]int) map[int]int {
	b := make(map[int]int, len(a)+1)
	for k, v := range a {
		b[k] = v
	}
	return b
}

func joinVC(dst, src map[int]int) map[int]int {
	if dst == nil {
		dst = map[int]int{}
	}
	for k, v := range src {
		if dst[k] < v {
			dst[k] = v
		}
	}
	return dst
}

func (s *scheduler) runnable(t *thread) bool {
	if t.done {
		return false
	}
	if t.blocked != nil && t.blocked() {
		return false
	}
	return true
}

func (s *scheduler) spawn(fr *frame, pos token.Pos, fn value, args []value) {
	if len(s.threads) >= 16 {
		panic(pathAbort{"bound", "more than 16 goroutines"})
	}
	parent := s.cur
	t := &thread{id: len(s.threads), wake: make(chan struct{}, 1), exit: make(chan struct{}), what: s.i.prog.Fset.Position(pos).String()}
	t.vc = copyVC(parent.vc)
	t.vc[t.id] = 1
	parent.vc[parent.id]++
	s.threads = append(s.threads, t)
	go s.threadMain(t, pos, fn, args)
	s.yield()
}

func (s *scheduler) threadMain(t *thread, pos token.Pos, fn value, args []value) {
	<-t.wake
	t.started = true
	defer close(t.exit)
	if s.abort != nil {
		t.done = true
		return
	}
	defer func() {
		r := recover()
		t.done = true
		t.blocked = nil
		if r != nil {
			switch r := r.(type) {
			case pathAbort:
				if s.abort == nil {
					s.abort = &r
				}
			case targetPanic:
				s.i.ex.Fail("crash", "goroutine-panic", fmt.Sprintf("unrecovered panic in goroutine started at %s: %s", t.what, toString(r.v)))
				if s.abort == nil {
					s.abort = &pathAbort{"failure", "goroutine crashed"}
				}
			case rtErr:
				s.i.ex.Fail("crash", "goroutine-panic", fmt.Sprintf("unrecovered run-time panic in goroutine started at %s: %s", t.what, r.msg))
				if s.abort == nil {
					s.abort = &pathAbort{"failure", "goroutine crashed"}
				}
			default:
				if s.abort == nil {
					s.abort = &pathAbort{"engine", fmt.Sprintf("%v\n%s", r, debug.Stack())}
				}
			}
		}
		if s.abort != nil {
			// hand the baton back to main so that it can unwind
			if s.cur == t {
				s.cur = s.threads[0]
				s.threads[0].wake <- struct{}{}
			}
			return
		}
		// normal exit: pick the next runnable thread
		next := s.pick(t)
		if next == nil {
			// nothing can run: main must be blocked forever
			s.i.ex.Fail("deadlock", "deadlock", s.describeBlocked())
			s.abort = &pathAbort{"failure", "deadlock"}
			s.cur = s.threads[0]
			s.threads[0].wake <- struct{}{}
			return
		}
		s.cur = next
		next.wake <- struct{}{}
	}()
	call(s.i, nil, pos, fn, args)
}

func (s *scheduler) describeBlocked() string {
	out := "all goroutines are asleep:"
	for _, t := range s.threads {
		if !t.done {
			out += fmt.Sprintf(" [%d %s]", t.id, t.what)
		}
	}
	return out
}

// pick chooses the next thread to run. me is the thread giving up the
// baton (it is a candidate only if it is still runnable).
func (s *scheduler) pick(me *thread) *thread {
	var cands []*thread
	for _, t := range s.threads {
		if s.runnable(t) {
			cands = append(cands, t)
		}
	}
	if len(cands) == 0 {
		return nil
	}
	if !s.explore {
		for _, t := range cands {
			if t == me {
				return me
			}
		}
		return cands[0]
	}
	if len(cands) == 1 {
		return cands[0]
	}
	// the current thread first, so that alternative 0 is "no preemption"
	sort.SliceStable(cands, func(a, b int) bool { return cands[a] == me && cands[b] != me })
	meRunnable := cands[0] == me
	if meRunnable && s.preempts >= s.maxPreempt {
		return me
	}
	s.nsched++
	alt := s.i.ex.Choose(len(cands), DkSched, "")
	if meRunnable && cands[alt] != me {
		s.preempts++
	}
	return cands[alt]
}

func (s *scheduler) switchTo(me, next *thread) {
	s.cur = next
	next.wake <- struct{}{}
	<-me.wake
	if s.abort != nil {
		panic(*s.abort)
	}
}

// yield is a scheduling point at which the current thread stays runnable.
func (s *scheduler) yield() {
	if len(s.threads) == 1 {
		return
	}
	me := s.cur
	next := s.pick(me)
	if next == nil || next == me {
		return
	}
	s.switchTo(me, next)
}

// block suspends the current thread while cond() holds.
func (s *scheduler) block(cond func() bool) {
	me := s.cur
	for cond() {
		me.blocked = cond
		next := s.pick(me)
		if next == nil {
			me.blocked = nil
			s.i.ex.Fail("deadlock", "deadlock", s.describeBlocked())
			panic(pathAbort{"failure", "deadlock"})
		}
		s.switchTo(me, next)
	}
	me.blocked = nil
}

// drain lets every other runnable thread run until none is runnable.
func (s *scheduler) drain() {
	me := s.cur
	for {
		other := false
		for _, t := range s.threads {
			if t != me && s.runnable(t) {
				other = true
			}
		}
		if !other {
			return
		}
		me.blocked = func() bool {
			for _, t := range s.threads {
				if t != me && s.runnable0(t, me) {
					return true
				}
			}
			return false
		}
		next := s.pick(me)
		if next == nil || next == me {
			me.blocked = nil
			return
		}
		s.switchTo(me, next)
		me.blocked = nil
	}
}

func (s *scheduler) runnable0(t, skip *thread) bool {
	if t == skip || t.done {
		return false
	}
	if t.blocked != nil && t.blocked() {
		return false
	}
	return true
}

// shutdown terminates every thread that is still alive (end of path).
func (s *scheduler) shutdown() {
	if s.abort == nil {
		s.abort = &pathAbort{"done", ""}
	}
	for _, t := range s.threads[1:] {
		select {
		case <-t.exit:
			continue
		default:
		}
		s.cur = t
		t.wake <- struct{}{}
		// the thread unwinds and hands the baton back to main
		<-t.exit
		select {
		case <-s.threads[0].wake:
		default:
		}
	}
}

func (s *scheduler) live() int {
	n := 0
	for _, t := range s.threads {
		if !t.done {
			n++
		}
	}
	return n
}

// ---------------------------------------------------------------- races

func (s *scheduler) hb(e epoch, t *thread) bool { return e.clk <= t.vc[e.tid] }

func (s *scheduler) access(fr *frame, addr *value, write bool) {
	if !s.race || len(s.threads) == 1 {
		return
	}
	s.accessKey(fr, addr, write)
}

func (s *scheduler) accessObj(fr *frame, obj any, write bool) {
	if !s.race || len(s.threads) == 1 {
		return
	}
	s.accessKey(fr, obj, write)
}

func (s *scheduler) where(fr *frame) string {
	if fr == nil || fr.fn == nil {
		return "?"
	}
	fn := fr.fn
	for fn.Parent() != nil {
		fn = fn.Parent()
	}
	return fn.String()
}

func (s *scheduler) accessKey(fr *frame, key any, write bool) {
	t := s.cur
	sh := s.shadows[key]
	if sh == nil {
		sh = &shadow{reads: map[int]int{}, rpos: map[int]string{}}
		s.shadows[key] = sh
	}
	here := s.where(fr)
	report := func(other string, kind string) {
		a, b := other, here
		if a > b {
			a, b = b, a
		}
		msg := fmt.Sprintf("%s between %s and %s", kind, a, b)
		if !s.raced[msg] {
			s.raced[msg] = true
			s.i.ex.Fail("race", "data-race", msg)
		}
	}
	if sh.w.clk != 0 && sh.w.tid != t.id && !s.hb(sh.w, t) {
		if write {
			report(sh.wpos, "write/write race")
		} else {
			report(sh.wpos, "read/write race")
		}
	}
	if write {
		for tid, clk := range sh.reads {
			if tid != t.id && !s.hb(epoch{tid, clk}, t) {
				report(sh.rpos[tid], "read/write race")
			}
		}
		sh.w = epoch{t.id, t.vc[t.id]}
		sh.wpos = here
		sh.reads = map[int]int{}
		sh.rpos = map[int]string{}
	} else {
		sh.reads[t.id] = t.vc[t.id]
		sh.rpos[t.id] = here
	}
}

// ---------------------------------------------------------------- sync

func (s *scheduler) mutex(p *value) *mutexState {
	m := s.mutexes[p]
	if m == nil {
		m = &mutexState{}
		s.mutexes[p] = m
	}
	return m
}

func (s *scheduler) wg(p *value) *wgState {
	w := s.wgs[p]
	if w == nil {
		w = &wgState{}
		s.wgs[p] = w
	}
	return w
}

func init() {
	lock := func(fr *frame, args []value) value {
		s := fr.i.sched
		p := args[0].(*value)
		if p == nil {
			panic(rtErr{"invalid memory address or nil pointer dereference"})
		}
		m := s.mutex(p)
		s.yield()
		s.block(func() bool { return m.locked || m.readers > 0 })
		m.locked = true
		s.cur.vc = joinVC(s.cur.vc, m.vc)
		s.cur.vc = joinVC(s.cur.vc, m.rvc)
		return nil
	}
	unlock := func(fr *frame, args []value) value {
		s := fr.i.sched
		m := s.mutex(args[0].(*value))
		if !m.locked {
			panic(pathAbort{"failure", "unlock of unlocked mutex"})
		}
		m.locked = false
		m.vc = joinVC(m.vc, s.cur.vc)
		s.cur.vc[s.cur.id]++
		return nil
	}
	rlock := func(fr *frame, args []value) value {
		s := fr.i.sched
		m := s.mutex(args[0].(*value))
		s.yield()
		s.block(func() bool { return m.locked })
		m.readers++
		s.cur.vc = joinVC(s.cur.vc, m.vc)
		return nil
	}
	runlock := func(fr *frame, args []value) value {
		s := fr.i.sched
		m := s.mutex(args[0].(*value))
		if m.readers <= 0 {
			panic(pathAbort{"failure", "RUnlock of unlocked RWMutex"})
		}
		m.readers--
		m.rvc = joinVC(m.rvc, s.cur.vc)
		s.cur.vc[s.cur.id]++
		return nil
	}
	externals["(*sync.Mutex).Lock"] = lock
	externals["(*sync.Mutex).Unlock"] = unlock
	externals["(*sync.RWMutex).Lock"] = lock
	externals["(*sync.RWMutex).Unlock"] = unlock
	externals["(*sync.RWMutex).RLock"] = rlock
	externals["(*sync.RWMutex).RUnlock"] = runlock
	// ---- sync.Map: an association list per receiver; concurrent access is
	// synchronised by definition (no race reports), lookups compare keys
	// with interface equality
	smapOf := func(fr *frame, recv value) *syncMapState {
		p := recv.(*value)
		if fr.i.syncMaps == nil {
			fr.i.syncMaps = map[*value]*syncMapState{}
		}
		m := fr.i.syncMaps[p]
		if m == nil {
			m = &syncMapState{}
			fr.i.syncMaps[p] = m
		}
		return m
	}
	smapFind := func(fr *frame, m *syncMapState, key value) int {
		anyT := types.NewInterfaceType(nil, nil)
		for i := range m.keys {
			switch eq := fr.equalsV(anyT, m.keys[i], key).(type) {
			case bool:
				if eq {
					return i
				}
			case SymBool:
				if fr.i.ex.Branch(eq.T) {
					return i
				}
			}
		}
		return -1
	}
	externals["(*sync.Map).Load"] = func(fr *frame, args []value) value {
		m := smapOf(fr, args[0])
		if i := smapFind(fr, m, args[1]); i >= 0 {
			return tuple{m.vals[i], true}
		}
		return tuple{iface{}, false}
	}
	externals["(*sync.Map).Store"] = func(fr *frame, args []value) value {
		m := smapOf(fr, args[0])
		if i := smapFind(fr, m, args[1]); i >= 0 {
			m.vals[i] = args[2]
			return nil
		}
		m.keys, m.vals = append(m.keys, args[1]), append(m.vals, args[2])
		return nil
	}
	externals["(*sync.Map).LoadOrStore"] = func(fr *frame, args []value) value {
		m := smapOf(fr, args[0])
		if i := smapFind(fr, m, args[1]); i >= 0 {
			return tuple{m.vals[i], true}
		}
		m.keys, m.vals = append(m.keys, args[1]), append(m.vals, args[2])
		return tuple{args[2], false}
	}
	externals["(*sync.Map).Delete"] = func(fr *frame, args []value) value {
		m := smapOf(fr, args[0])
		if i := smapFind(fr, m, args[1]); i >= 0 {
			m.keys = append(m.keys[:i:i], m.keys[i+1:]...)
			m.vals = append(m.vals[:i:i], m.vals[i+1:]...)
		}
		return nil
	}
	// ---- sync.Pool: a LIFO free list per receiver (what one goroutine sees
	// from the real pool between collections); Get on an empty pool calls New
	externals["(*sync.Pool).Put"] = func(fr *frame, args []value) value {
		p := args[0].(*value)
		if fr.i.syncPools == nil {
			fr.i.syncPools = map[*value][]value{}
		}
		if it, ok := args[1].(iface); ok && it.t == nil {
			return nil // Put(nil) is ignored
		}
		fr.i.syncPools[p] = append(fr.i.syncPools[p], args[1])
		return nil
	}
	externals["(*sync.Pool).Get"] = func(fr *frame, args []value) value {
		p := args[0].(*value)
		if l := fr.i.syncPools[p]; len(l) > 0 {
			v := l[len(l)-1]
			fr.i.syncPools[p] = l[:len(l)-1]
			return v
		}
		// the New field of the Pool struct
		st := (*p).(structure)
		pt := fr.i.prog.ImportedPackage("sync").Type("Pool").Type().Underlying().(*types.Struct)
		for i := 0; i < pt.NumFields(); i++ {
			if pt.Field(i).Name() == "New" {
				if fn := st[i]; fn != nil {
					if c, ok := fn.(*closure); ok && c == nil {
						break
					}
					if f, ok := fn.(*ssa.Function); ok && f == nil {
						break
					}
					return call(fr.i, fr, 0, fn, nil)
				}
			}
		}
		return iface{}
	}
	externals["(*sync.WaitGroup).Add"] = func(fr *frame, args []value) value {
		s := fr.i.sched
		w := s.wg(args[0].(*value))
		n := fr.concreteInt(args[1], "WaitGroup.Add delta")
		w.n += int(n)
		if w.n < 0 {
			panic(targetPanic{iface{t: fr.i.runtimeErrorString, v: "sync: negative WaitGroup counter"}})
		}
		if n < 0 {
			w.vc = joinVC(w.vc, s.cur.vc)
			s.cur.vc[s.cur.id]++
		}
		return nil
	}
	externals["(*sync.WaitGroup).Done"] = func(fr *frame, args []value) value {
		s := fr.i.sched
		w := s.wg(args[0].(*value))
		w.n--
		if w.n < 0 {
			panic(targetPanic{iface{t: fr.i.runtimeErrorString, v: "sync: negative WaitGroup counter"}})
		}
		w.vc = joinVC(w.vc, s.cur.vc)
		s.cur.vc[s.cur.id]++
		s.yield()
		return nil
	}
	externals["(*sync.WaitGroup).Wait"] = func(fr *frame, args []value) value {
		s := fr.i.sched
		w := s.wg(args[0].(*value))
		s.yield()
		s.block(func() bool { return w.n > 0 })
		s.cur.vc = joinVC(s.cur.vc, w.vc)
		return nil
	}
}

type syncMapState struct {
	keys, vals []value
}
