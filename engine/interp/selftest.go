// Running the repository's own unit tests inside the engine (concrete
// translation validation of the interpreter and the intrinsics): a minimal
// model of *testing.T and reflect.DeepEqual.

package interp

import (
	"fmt"
	"go/types"
	"strings"
)

type tState struct {
	name   string
	failed bool
	parent *tState
}

type testFatal struct{ st *tState }

// TestOutcome is one (sub)test result of a self-test run.
type TestOutcome struct {
	Name   string
	Passed bool
	Msgs   []string
}

func (i *interpreter) tstate(common *value) *tState {
	if i.tests == nil {
		i.tests = map[*value]*tState{}
	}
	st := i.tests[common]
	if st == nil {
		st = &tState{name: "?"}
		i.tests[common] = st
	}
	return st
}

func goTestName(s string) string {
	var b strings.Builder
	for _, r := range s {
		switch {
		case r == ' ':
			b.WriteByte('_')
		default:
			b.WriteRune(r)
		}
	}
	return b.String()
}

func init() {
	msg := func(fr *frame, args []value, format bool) string {
		var v value
		if format {
			v = fr.sprintf(args[1], args[2].([]value))
		} else {
			v = externals["fmt.Sprintln"](fr, []value{args[1]})
		}
		if s, ok := v.(string); ok {
			return strings.TrimRight(s, "\n")
		}
		return "<symbolic message>"
	}
	fail := func(fr *frame, args []value, format, fatal bool) value {
		st := fr.i.tstate(args[0].(*value))
		for p := st; p != nil; p = p.parent {
			p.failed = true
		}
		fr.i.testLog = append(fr.i.testLog, st.name+": "+msg(fr, args, format))
		if fatal {
			panic(testFatal{st})
		}
		return nil
	}
	c := "(*testing.common)."
	externals[c+"Errorf"] = func(fr *frame, a []value) value { return fail(fr, a, true, false) }
	externals[c+"Error"] = func(fr *frame, a []value) value { return fail(fr, a, false, false) }
	externals[c+"Fatalf"] = func(fr *frame, a []value) value { return fail(fr, a, true, true) }
	externals[c+"Fatal"] = func(fr *frame, a []value) value { return fail(fr, a, false, true) }
	externals[c+"Fail"] = func(fr *frame, a []value) value {
		st := fr.i.tstate(a[0].(*value))
		for p := st; p != nil; p = p.parent {
			p.failed = true
		}
		return nil
	}
	externals[c+"FailNow"] = func(fr *frame, a []value) value {
		st := fr.i.tstate(a[0].(*value))
		for p := st; p != nil; p = p.parent {
			p.failed = true
		}
		panic(testFatal{st})
	}
	externals[c+"Logf"] = func(fr *frame, a []value) value { return nil }
	externals[c+"Log"] = func(fr *frame, a []value) value { return nil }
	externals[c+"Helper"] = func(fr *frame, a []value) value { return nil }
	externals[c+"Failed"] = func(fr *frame, a []value) value { return fr.i.tstate(a[0].(*value)).failed }
	externals[c+"Name"] = func(fr *frame, a []value) value { return fr.i.tstate(a[0].(*value)).name }
	externals["(*testing.T).Parallel"] = func(fr *frame, a []value) value { return nil }
	externals["(*testing.T).Run"] = func(fr *frame, a []value) value {
		t := a[0].(*value)
		parent := fr.i.tstate(&(*t).(structure)[0])
		name := mustConcrete(a[1], "subtest name")
		child, st := fr.i.newT(parent.name+"/"+goTestName(name), parent)
		fr.i.runTestFunc(fr, a[2], child, st)
		return !st.failed
	}
	externals["reflect.DeepEqual"] = func(fr *frame, a []value) value {
		return fr.reflectDeepEqual(a[0], a[1], 0)
	}
}

func (i *interpreter) newT(name string, parent *tState) (*value, *tState) {
	tt := i.prog.ImportedPackage("testing").Type("T").Type()
	var s value = zero(tt)
	p := &s
	st := i.tstate(&(*p).(structure)[0])
	st.name, st.parent = name, parent
	return p, st
}

func (i *interpreter) runTestFunc(fr *frame, fn value, t *value, st *tState) {
	defer func() {
		if r := recover(); r != nil {
			switch r := r.(type) {
			case testFatal:
				if r.st != st {
					panic(r)
				}
			case targetPanic:
				st.failed = true
				for p := st.parent; p != nil; p = p.parent {
					p.failed = true
				}
				i.testLog = append(i.testLog, st.name+": panic: "+toString(r.v))
			case rtErr:
				st.failed = true
				for p := st.parent; p != nil; p = p.parent {
					p.failed = true
				}
				i.testLog = append(i.testLog, st.name+": panic: runtime error: "+r.msg)
			default:
				panic(r)
			}
		}
		i.testOutcomes = append(i.testOutcomes, TestOutcome{Name: st.name, Passed: !st.failed})
	}()
	call(i, fr, 0, fn, []value{t})
}

// reflectDeepEqual follows reflect.DeepEqual on interpreter values.
func (fr *frame) reflectDeepEqual(a, b value, depth int) value {
	if depth > 50 {
		return true
	}
	ia, ib := a.(iface), b.(iface)
	if ia.t == nil || ib.t == nil {
		return ia.t == nil && ib.t == nil
	}
	if !types.Identical(ia.t, ib.t) {
		return false
	}
	return fr.deepEqualTyped(ia.t, ia.v, ib.v, depth)
}

func (fr *frame) deepEqualTyped(t types.Type, x, y value, depth int) value {
	switch ut := t.Underlying().(type) {
	case *types.Map:
		mx, my := x.(*omap), y.(*omap)
		if (mx == nil) != (my == nil) {
			return false
		}
		if mx.len() != my.len() {
			return false
		}
		acc := value(true)
		if mx != nil {
			for i, k := range mx.keys {
				v2, ok := my.lookup(fr, k)
				if !ok {
					return false
				}
				acc = symAnd(acc, fr.deepEqualElem(ut.Elem(), mx.vals[i], v2, depth+1))
			}
		}
		return acc
	case *types.Slice:
		sx, ok1 := x.([]value)
		sy, ok2 := y.([]value)
		if !ok1 || !ok2 {
			return fr.equalsV(types.Typ[types.String], bytesToString(x), bytesToString(y))
		}
		if (sx == nil) != (sy == nil) || len(sx) != len(sy) {
			return false
		}
		acc := value(true)
		for i := range sx {
			acc = symAnd(acc, fr.deepEqualElem(ut.Elem(), sx[i], sy[i], depth+1))
		}
		return acc
	case *types.Array:
		ax, ay := x.(array), y.(array)
		acc := value(true)
		for i := range ax {
			acc = symAnd(acc, fr.deepEqualElem(ut.Elem(), ax[i], ay[i], depth+1))
		}
		return acc
	case *types.Struct:
		sx, sy := x.(structure), y.(structure)
		acc := value(true)
		for i := range sx {
			acc = symAnd(acc, fr.deepEqualElem(ut.Field(i).Type(), sx[i], sy[i], depth+1))
		}
		return acc
	case *types.Pointer:
		px, py := x.(*value), y.(*value)
		if px == py {
			return true
		}
		if px == nil || py == nil {
			return false
		}
		return fr.deepEqualElem(ut.Elem(), *px, *py, depth+1)
	case *types.Interface:
		return fr.reflectDeepEqual(x, y, depth+1)
	case *types.Signature:
		return eqnil(t, x, zero(t)) && eqnil(t, y, zero(t))
	}
	return fr.equalsV(t, x, y)
}

func (fr *frame) deepEqualElem(t types.Type, x, y value, depth int) value {
	if _, ok := t.Underlying().(*types.Interface); ok {
		return fr.reflectDeepEqual(x, y, depth)
	}
	return fr.deepEqualTyped(t, x, y, depth)
}

var _ = fmt.Sprint
