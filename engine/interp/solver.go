// One long-lived SMT solver process per worker, driven over stdin/stdout.

package interp

import (
	"bufio"
	"fmt"
	"io"
	"os/exec"
	"strconv"
	"strings"
	"time"
)

type SolverKind int

const (
	SolverZ3 SolverKind = iota
	SolverZ3New
	SolverCVC5
)

func (k SolverKind) String() string {
	switch k {
	case SolverZ3:
		return "z3-4.8.12"
	case SolverZ3New:
		return "z3-5.1.0"
	case SolverCVC5:
		return "cvc5-1.0"
	}
	return "?"
}

type Solver struct {
	Kind      SolverKind
	TimeoutMs int
	cmd       *exec.Cmd
	in        io.WriteCloser
	out       *bufio.Reader
	declared  map[string]bool
	Time      time.Duration
	Queries   int
	Unknowns  int
	Errors    int
	dead      bool
}

func NewSolver(kind SolverKind, timeoutMs int) *Solver {
	s := &Solver{Kind: kind, TimeoutMs: timeoutMs}
	s.start()
	return s
}

func (s *Solver) start() {
	var cmd *exec.Cmd
	switch s.Kind {
	case SolverZ3:
		cmd = exec.Command("/usr/bin/z3", "-in", fmt.Sprintf("-t:%d", s.TimeoutMs))
	case SolverZ3New:
		cmd = exec.Command("z3-new", "-in", fmt.Sprintf("-t:%d", s.TimeoutMs))
	case SolverCVC5:
		cmd = exec.Command("cvc5", "--incremental", "--fp-exp", "--produce-models", fmt.Sprintf("--tlimit-per=%d", s.TimeoutMs), "--lang=smt2")
	}
	in, err := cmd.StdinPipe()
	if err != nil {
		panic(err)
	}
	out, err := cmd.StdoutPipe()
	if err != nil {
		panic(err)
	}
	cmd.Stderr = nil
	if err := cmd.Start(); err != nil {
		panic(fmt.Sprintf("cannot start solver %v: %v", s.Kind, err))
	}
	s.cmd, s.in, s.out = cmd, in, bufio.NewReaderSize(out, 1<<16)
	s.declared = map[string]bool{}
	s.dead = false
	pre := "(set-option :produce-models true)\n"
	if s.Kind == SolverCVC5 {
		pre += "(set-logic ALL)\n"
	}
	pre += "(declare-fun fmod ((_ FloatingPoint 11 53) (_ FloatingPoint 11 53)) (_ FloatingPoint 11 53))\n"
	io.WriteString(s.in, pre)
}

func (s *Solver) Close() {
	if s.cmd != nil && !s.dead {
		io.WriteString(s.in, "(exit)\n")
		s.in.Close()
		done := make(chan struct{})
		go func() { s.cmd.Wait(); close(done) }()
		select {
		case <-done:
		case <-time.After(2 * time.Second):
			s.cmd.Process.Kill()
			<-done
		}
		s.dead = true
	}
}

func (s *Solver) restart() {
	if s.cmd != nil {
		s.cmd.Process.Kill()
		s.cmd.Wait()
	}
	s.start()
}

type SatResult int

const (
	Unsat SatResult = iota
	Sat
	Unknown
)

func (r SatResult) String() string { return [...]string{"unsat", "sat", "unknown"}[r] }

type varDecl struct {
	name string
	sort Sort
	w    int
}

func collectVarDecls(ts []*Term, into map[string]varDecl) {
	seen := map[*Term]bool{}
	var walk func(x *Term)
	walk = func(x *Term) {
		if seen[x] {
			return
		}
		seen[x] = true
		if x.Op == OpVar {
			into[x.Name] = varDecl{x.Name, x.Sort, x.W}
		}
		for _, a := range x.Args {
			walk(a)
		}
	}
	for _, t := range ts {
		walk(t)
	}
}

// Check decides the conjunction of asserts. If wantModel and the result is
// Sat the values of all variables occurring in asserts are returned.
func (s *Solver) Check(asserts []*Term, wantModel bool) (SatResult, Model) {
	t0 := time.Now()
	defer func() { s.Time += time.Since(t0) }()
	s.Queries++
	decls := map[string]varDecl{}
	collectVarDecls(asserts, decls)
	var b strings.Builder
	var names []string
	for n, d := range decls {
		names = append(names, n)
		if !s.declared[n] {
			s.declared[n] = true
			fmt.Fprintf(&b, "(declare-const %s %s)\n", n, sortSMT(d.sort, d.w))
		}
	}
	b.WriteString("(push 1)\n")
	for _, a := range asserts {
		b.WriteString("(assert ")
		b.WriteString(a.SMT())
		b.WriteString(")\n")
	}
	b.WriteString("(check-sat)\n")
	if _, err := io.WriteString(s.in, b.String()); err != nil {
		s.Errors++
		s.restart()
		return Unknown, nil
	}
	line, err := s.readLine()
	if err != nil {
		s.Errors++
		s.restart()
		return Unknown, nil
	}
	var res SatResult
	switch line {
	case "sat":
		res = Sat
	case "unsat":
		res = Unsat
	case "unknown":
		res = Unknown
		s.Unknowns++
	default:
		// (error ...) or anything unexpected: inconclusive; resync by restart
		s.Errors++
		s.restart()
		return Unknown, nil
	}
	var model Model
	if res == Sat && wantModel && len(names) > 0 {
		io.WriteString(s.in, "(get-value ("+strings.Join(names, " ")+"))\n")
		txt, err := s.readSexp()
		if err != nil {
			s.Errors++
			s.restart()
			return Unknown, nil
		}
		model = parseModel(txt)
		if model == nil {
			s.Errors++
			s.restart()
			return Unknown, nil
		}
	}
	io.WriteString(s.in, "(pop 1)\n")
	return res, model
}

func (s *Solver) readLine() (string, error) {
	for {
		line, err := s.out.ReadString('\n')
		if err != nil {
			return "", err
		}
		line = strings.TrimSpace(line)
		if line == "" {
			continue
		}
		return line, nil
	}
}

// readSexp reads one balanced s-expression (possibly spanning lines).
func (s *Solver) readSexp() (string, error) {
	var b strings.Builder
	depth := 0
	started := false
	for {
		c, err := s.out.ReadByte()
		if err != nil {
			return "", err
		}
		if !started {
			if c == '(' {
				started = true
			} else if c == ' ' || c == '\n' || c == '\r' || c == '\t' {
				continue
			} else {
				// not an s-expression: read to end of line
				rest, _ := s.out.ReadString('\n')
				return string(c) + rest, fmt.Errorf("unexpected solver output")
			}
		}
		b.WriteByte(c)
		if c == '(' {
			depth++
		} else if c == ')' {
			depth--
			if depth == 0 {
				return b.String(), nil
			}
		}
	}
}

// parseModel parses "((name value) (name value) ...)" where value is a
// #x/#b literal or true/false.
func parseModel(txt string) Model {
	if strings.HasPrefix(txt, "(error") {
		return nil
	}
	m := Model{}
	toks := tokenizeSexp(txt)
	// expect: ( ( name val ) ... )
	i := 0
	if len(toks) == 0 || toks[0] != "(" {
		return nil
	}
	i++
	for i < len(toks) && toks[i] == "(" {
		i++
		if i+1 >= len(toks) {
			return nil
		}
		name := toks[i]
		i++
		val := toks[i]
		i++
		if val == "(" {
			// (_ bvN w) form
			if i+3 < len(toks) && toks[i] == "_" && strings.HasPrefix(toks[i+1], "bv") {
				n, err := strconv.ParseUint(toks[i+1][2:], 10, 64)
				if err != nil {
					return nil
				}
				m[name] = n
				i += 4
			} else {
				return nil
			}
		} else {
			switch {
			case val == "true":
				m[name] = 1
			case val == "false":
				m[name] = 0
			case strings.HasPrefix(val, "#x"):
				n, err := strconv.ParseUint(val[2:], 16, 64)
				if err != nil {
					return nil
				}
				m[name] = n
			case strings.HasPrefix(val, "#b"):
				n, err := strconv.ParseUint(val[2:], 2, 64)
				if err != nil {
					return nil
				}
				m[name] = n
			default:
				return nil
			}
		}
		if i >= len(toks) || toks[i] != ")" {
			return nil
		}
		i++
	}
	return m
}

func tokenizeSexp(s string) []string {
	var out []string
	i := 0
	for i < len(s) {
		c := s[i]
		switch {
		case c == '(' || c == ')':
			out = append(out, string(c))
			i++
		case c == ' ' || c == '\n' || c == '\t' || c == '\r':
			i++
		default:
			j := i
			for j < len(s) && !strings.ContainsRune("() \n\t\r", rune(s[j])) {
				j++
			}
			out = append(out, s[i:j])
			i = j
		}
	}
	return out
}
