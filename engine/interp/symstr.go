// Symbolic strings: ropes of byte terms and opaque tokens.
//
// A SymString is a sequence of segments. A byte segment is an 8-bit term
// (often constant). A token segment stands for a text of path-unknown
// length that is only ever compared for identity:
//   SegNum    the %v / FormatFloat(x,'g',-1,64) text of float64 term T
//   SegInt    the decimal text of the signed 64-bit term T
//   SegDigest the encoded digest of preimage Pre under Alg (fixed length)
// Byte-level access to a string that contains Num/Int tokens first
// concretises them (Explorer.flatten); digests cannot be flattened.

package interp

import (
	"crypto/sha256"
	"encoding/base64"
	"encoding/hex"
	"fmt"
	"go/token"
	"go/types"
	"os"
	"runtime/debug"
	"strconv"
	"sync"
)

type SegKind uint8

const (
	SegByte SegKind = iota
	SegNum
	SegInt
	SegDigest
)

type Seg struct {
	K   SegKind
	T   *Term
	Pre *SymString
	Alg string
}

type SymString struct{ S []Seg }

// ropeBytes is a []byte whose content contains opaque tokens. Only
// intrinsics understand it; interpreted code that touches it traps.
type ropeBytes struct{ R SymString }

func isStringVal(v value) bool {
	switch v.(type) {
	case string, SymString:
		return true
	}
	return false
}

func byteSeg(b byte) Seg { return Seg{K: SegByte, T: BvConst(uint64(b), 8)} }

func strSegs(v value) []Seg {
	switch v := v.(type) {
	case string:
		out := make([]Seg, len(v))
		for i := 0; i < len(v); i++ {
			out[i] = byteSeg(v[i])
		}
		return out
	case SymString:
		return v.S
	}
	panic(fmt.Sprintf("strSegs: %T", v))
}

func hasTokens(segs []Seg) bool {
	for _, s := range segs {
		if s.K != SegByte {
			return true
		}
	}
	return false
}

func mkString(segs []Seg) value {
	conc := true
	for _, s := range segs {
		if s.K != SegByte || !s.T.IsConst() {
			conc = false
			break
		}
	}
	if conc {
		b := make([]byte, len(segs))
		for i, s := range segs {
			b[i] = byte(s.T.U)
		}
		return string(b)
	}
	return SymString{S: append([]Seg(nil), segs...)}
}

func strConcat(x, y value) value {
	if xs, ok := x.(string); ok {
		if ys, ok := y.(string); ok {
			return xs + ys
		}
	}
	a, b := strSegs(x), strSegs(y)
	out := make([]Seg, 0, len(a)+len(b))
	out = append(out, a...)
	out = append(out, b...)
	return mkString(out)
}

type needFlatten struct{ what string }

func isNumChar(c byte) bool {
	switch {
	case c >= '0' && c <= '9':
		return true
	}
	switch c {
	case '.', 'e', 'E', '+', 'N', 'a', 'I', 'n', 'f':
		return true
	}
	return false
}

// tokTerminated reports whether the segment following a Num/Int token makes
// the token's extent unambiguous: end of string, or a constant byte that
// cannot occur inside number text ('-' is allowed: it occurs inside number
// text only after 'e', and number text never ends in 'e').
func tokTerminated(segs []Seg, i int) (byte, bool, bool) {
	if i+1 >= len(segs) {
		return 0, true, true // end
	}
	n := segs[i+1]
	if n.K == SegByte && n.T.IsConst() && !isNumChar(byte(n.T.U)) {
		return byte(n.T.U), false, true
	}
	return 0, false, false
}

// strEq returns x == y as bool or SymBool. It panics with needFlatten when
// the operands contain tokens that cannot be aligned.
func strEq(x, y value) value {
	a, b := strSegs(x), strSegs(y)
	if !hasTokens(a) && !hasTokens(b) {
		if len(a) != len(b) {
			return false
		}
		var cs []*Term
		for i := range a {
			c := Eq(a[i].T, b[i].T)
			if c.IsConst() && c.U == 0 {
				return false
			}
			cs = append(cs, c)
		}
		return mkScalar(And(cs...), types.Bool)
	}
	// a digest token against the concrete text of a digest computed earlier
	if len(a) == 1 && a[0].K == SegDigest && !hasTokens(b) {
		return digestVsConcrete(a[0], b)
	}
	if len(b) == 1 && b[0].K == SegDigest && !hasTokens(a) {
		return digestVsConcrete(b[0], a)
	}
	var cs []*Term
	i, j := 0, 0
	for i < len(a) && j < len(b) {
		sa, sb := a[i], b[j]
		switch {
		case sa.K == SegByte && sb.K == SegByte:
			c := Eq(sa.T, sb.T)
			if c.IsConst() && c.U == 0 {
				// a differing constant byte before any unaligned token: the
				// prefix up to here is aligned, so the strings differ
				return false
			}
			cs = append(cs, c)
		case sa.K == SegDigest && sb.K == SegDigest:
			if sa.Alg != sb.Alg {
				panic(needFlatten{"digest kinds differ"})
			}
			c := strEq(*sa.Pre, *sb.Pre)
			cs = append(cs, boolTerm(c))
		case (sa.K == SegNum || sa.K == SegInt) && sa.K == sb.K:
			ta, enda, oka := tokTerminated(a, i)
			tb, endb, okb := tokTerminated(b, j)
			if !oka || !okb {
				panic(needFlatten{"number tokens not aligned"})
			}
			if enda != endb || ta != tb {
				// both extents are unambiguous and the aligned prefixes are
				// equal so far: equal strings would need equal token texts
				// followed by the same byte (or both by the end)
				return false
			}
			cs = append(cs, Eq(sa.T, sb.T))
		case (sa.K == SegNum || sa.K == SegInt) && sb.K == SegByte:
			c, adv, ok := tokVsBytes(a, i, b, j)
			if !ok {
				panic(needFlatten{"token compared with bytes"})
			}
			if c.IsConst() && c.U == 0 {
				return false
			}
			cs = append(cs, c)
			j += adv - 1
		case (sb.K == SegNum || sb.K == SegInt) && sa.K == SegByte:
			c, adv, ok := tokVsBytes(b, j, a, i)
			if !ok {
				panic(needFlatten{"token compared with bytes"})
			}
			if c.IsConst() && c.U == 0 {
				return false
			}
			cs = append(cs, c)
			i += adv - 1
		default:
			panic(needFlatten{"token compared with bytes"})
		}
		i++
		j++
	}
	if i != len(a) || j != len(b) {
		// one is a strict prefix (segment-wise) of the other
		rest := a[i:]
		if j < len(b) {
			rest = b[j:]
		}
		if hasTokens(rest) {
			// a remaining Num/Int token is never empty text; digests neither
			return false
		}
		return false
	}
	return mkScalar(And(cs...), types.Bool)
}

// strLess returns x < y (byte-wise lexicographic) for token-free strings.
func strLess(x, y value) value {
	a, b := strSegs(x), strSegs(y)
	if hasTokens(a) || hasTokens(b) {
		if r, ok := numTextVsFirstByte(a, b, false); ok {
			return r
		}
		if r, ok := numTextVsFirstByte(b, a, true); ok {
			return r
		}
		panic(needFlatten{"ordering of strings with tokens"})
	}
	n := len(a)
	if len(b) < n {
		n = len(b)
	}
	res := BoolT(len(a) < len(b))
	for i := n - 1; i >= 0; i-- {
		res = Or(BvUlt(a[i].T, b[i].T), And(Eq(a[i].T, b[i].T), res))
	}
	return mkScalar(res, types.Bool)
}

// numTextVsFirstByte decides the order of a string that starts with the %v
// text of a float64 against a string whose first byte is concrete and cannot
// start a number's text: every number text starts with a digit, '-', '+'
// (+Inf) or 'N' (NaN), so the first byte decides. swapped: the result wanted
// is other < num-text instead of num-text < other.
func numTextVsFirstByte(num, other []Seg, swapped bool) (value, bool) {
	if len(num) == 0 || num[0].K != SegNum || len(other) == 0 || other[0].K != SegByte || !other[0].T.IsConst() {
		return nil, false
	}
	c := byte(other[0].T.U)
	nan := FpIsNaN(num[0].T)
	var less *Term // num-text < other
	switch {
	case c < '+':
		less = BoolT(false)
	case c > '9' && c < 'N':
		less = Not(nan) // "NaN" sorts after c, everything else before
	case c > 'N':
		less = BoolT(true)
	default:
		return nil, false
	}
	if swapped {
		return mkScalar(Not(less), types.Bool), true // first bytes differ, so not(<) is >
	}
	return mkScalar(less, types.Bool), true
}

func strBinop(op token.Token, x, y value) value {
	switch op {
	case token.ADD:
		return strConcat(x, y)
	case token.EQL:
		return strEq(x, y)
	case token.NEQ:
		return symNot(strEq(x, y))
	case token.LSS:
		return strLess(x, y)
	case token.GTR:
		return strLess(y, x)
	case token.LEQ:
		return symNot(strLess(y, x))
	case token.GEQ:
		return symNot(strLess(x, y))
	}
	panic(fmt.Sprintf("strBinop: %s", op))
}

// strCompareTerm returns strings.Compare(x,y) as a 64-bit term.
func strCompareTerm(x, y value) *Term {
	lt := boolTerm(strLess(x, y))
	eq := boolTerm(strEq(x, y))
	return Ite(lt, BvConst(^uint64(0), 64), Ite(eq, BvConst(0, 64), BvConst(1, 64)))
}

func byteVal(s Seg) value {
	return mkScalar(s.T, types.Uint8)
}

func segOfByteVal(v value) Seg {
	t, _, ok := scalarTerm(v)
	if !ok || t.Sort != SBV {
		panic(fmt.Sprintf("segOfByteVal: %T", v))
	}
	if t.W != 8 {
		t = Extract(t, 7, 0)
	}
	return Seg{K: SegByte, T: t}
}

// bytesToString converts a []byte value ([]value or ropeBytes) to a string.
func bytesToString(v value) value {
	switch v := v.(type) {
	case ropeBytes:
		return mkString(v.R.S)
	case []value:
		segs := make([]Seg, len(v))
		for i, b := range v {
			segs[i] = segOfByteVal(b)
		}
		return mkString(segs)
	}
	panic(fmt.Sprintf("bytesToString: %T", v))
}

// stringToBytes converts a string value to a []byte value.
func stringToBytes(v value) value {
	segs := strSegs(v)
	if hasTokens(segs) {
		return ropeBytes{SymString{S: append([]Seg(nil), segs...)}}
	}
	out := make([]value, len(segs))
	for i, s := range segs {
		out[i] = byteVal(s)
	}
	return out
}

func fmtFloatG(f float64) string { return strconv.FormatFloat(f, 'g', -1, 64) }

// numSeg returns the segments of the %v text of a float64 scalar.
func numSegs(v value) []Seg {
	switch v := v.(type) {
	case float64:
		return strSegs(fmtFloatG(v))
	case float32:
		return strSegs(strconv.FormatFloat(float64(v), 'g', -1, 32))
	case SymFloat:
		if v.K == types.Float32 {
			panic(needFlatten{"float32 text"})
		}
		return []Seg{{K: SegNum, T: v.T}}
	}
	panic(fmt.Sprintf("numSegs: %T", v))
}

// intSegs returns the segments of the decimal text of an integer scalar.
func intSegs(v value) []Seg {
	if n, ok := concreteInt(v); ok {
		switch v.(type) {
		case uint, uint64, uintptr:
			return strSegs(strconv.FormatUint(uint64(n), 10))
		}
		return strSegs(strconv.FormatInt(n, 10))
	}
	si := v.(SymInt)
	if !kindSigned(si.K) && kindWidth(si.K) == 64 {
		panic(needFlatten{"uint64 text"})
	}
	var t *Term
	if kindSigned(si.K) {
		t = Sext(si.T, 64)
	} else {
		t = Zext(si.T, 64)
	}
	return []Seg{{K: SegInt, T: t}}
}

// ---- flattening (needs the explorer)

// flattenSegs concretises every Num/Int token so that the result is
// byte-only. Digest tokens cannot be flattened.
func (e *Explorer) flattenSegs(segs []Seg) []Seg {
	if !hasTokens(segs) {
		return segs
	}
	var out []Seg
	for _, s := range segs {
		switch s.K {
		case SegByte:
			out = append(out, s)
		case SegNum:
			f := e.concretiseF64(s.T)
			out = append(out, strSegs(fmtFloatG(f))...)
		case SegInt:
			v := e.ConcretiseBV(s.T, e.concCap(), "integer text")
			out = append(out, strSegs(strconv.FormatInt(int64(v), 10))...)
		case SegDigest:
			// concretise the tokens of the preimage; a fully concrete
			// preimage yields the real digest text
			pre := e.flattenSegs(s.Pre.S)
			if ps, ok := mkString(pre).(string); ok {
				out = append(out, strSegs(nativeDigest(s.Alg, ps))...)
			} else {
				p := SymString{S: pre}
				out = append(out, Seg{K: SegDigest, Alg: s.Alg, Pre: &p})
			}
		}
	}
	return out
}

// flatten returns a byte-only string (for byte-level access); a digest of
// a symbolic preimage cannot be flattened.
func (e *Explorer) flatten(v value) value {
	r := e.flattenEq(v)
	if ss, ok := r.(SymString); ok && hasTokens(ss.S) {
		panic(pathAbort{"unsupported", "byte-level access to a symbolic digest" + dbgStack()})
	}
	return r
}

// flattenEq concretises number tokens (also inside digest preimages) so
// that equality can be decided segment-wise.
func (e *Explorer) flattenEq(v value) value {
	switch v := v.(type) {
	case string:
		return v
	case SymString:
		if !hasTokens(v.S) {
			return v
		}
		return mkString(e.flattenSegs(v.S))
	}
	panic(fmt.Sprintf("flatten: %T", v))
}

func (e *Explorer) concCap() int { return 24 }

func dbgStack() string {
	if os.Getenv("VERIF_DEBUG") == "" {
		return ""
	}
	return "\n" + string(debug.Stack())
}

// concretiseF64 enumerates the feasible values of a float64 term.
func (e *Explorer) concretiseF64(t *Term) float64 {
	if t.IsConst() {
		return fpVal(t)
	}
	// an auxiliary bit-vector that mirrors the float (canonical NaN)
	if t.Op == OpFpFromBits && t.Args[0].Op == OpVar {
		// still need canonical NaN: constrain
	}
	b := e.Fresh("conc", "aux", SBV, 64)
	fb := FpFromBits(b, SF64)
	e.Assume(And(Eq(fb, t), Or(Not(FpIsNaN(fb)), Eq(b, BvConst(0x7ff8000000000001, 64)))))
	v := e.ConcretiseBV(b, e.concCap(), "float text")
	return fpOf(SF64, v)
}

// strLenConcrete returns the byte length of a string value, flattening
// tokens when necessary.
func (e *Explorer) strLen(v value) (value, int) {
	if s, ok := v.(string); ok {
		return v, len(s)
	}
	f := e.flatten(v)
	return f, len(strSegs(f))
}

// nativeDigest computes the text of a digest token whose preimage is
// concrete. Alg is "sha256" optionally followed by "+hex", "+b64std" or
// "+b64url".
func nativeDigest(alg, pre string) string {
	sum := sha256.Sum256([]byte(pre))
	var out string
	switch alg {
	case "sha256":
		out = string(sum[:])
	case "sha256+hex":
		out = hex.EncodeToString(sum[:])
	case "sha256+b64std":
		out = base64.StdEncoding.EncodeToString(sum[:])
	case "sha256+b64url":
		out = base64.URLEncoding.EncodeToString(sum[:])
	default:
		panic(pathAbort{"engine", "nativeDigest: unknown algorithm " + alg})
	}
	knownDigests.Store(alg+"|"+out, pre)
	return out
}

// knownDigests maps the concrete text of digests computed natively (by the
// sha256/hex/base64 intrinsics) to their preimages, so that a symbolic
// digest can be compared with a concrete one through the preimages.
var knownDigests sync.Map

func digestVsConcrete(d Seg, other []Seg) value {
	s, ok := mkString(other).(string)
	if !ok {
		panic(needFlatten{"digest compared with symbolic bytes"})
	}
	pre, ok := knownDigests.Load(d.Alg + "|" + s)
	if !ok {
		// not the text of any digest computed so far: different under the
		// collision-freedom assumption
		return false
	}
	return strEq(*d.Pre, pre.(string))
}

// tokVsBytes compares the number token ts[ti] with the concrete bytes of bs
// starting at bj. The token's extent on the byte side is delimited by the
// token's terminator (end of string, or the constant non-number byte that
// follows the token); the bytes must be constants. It returns the equality
// condition, the number of byte segments consumed, and ok=false when the
// comparison cannot be decided without concretising the token.
func tokVsBytes(ts []Seg, ti int, bs []Seg, bj int) (*Term, int, bool) {
	term, atEnd, ok := tokTerminated(ts, ti)
	if !ok {
		return nil, 0, false
	}
	k := bj
	for k < len(bs) {
		sg := bs[k]
		if sg.K != SegByte || !sg.T.IsConst() {
			return nil, 0, false
		}
		c := byte(sg.T.U)
		if !atEnd && c == term {
			// '-' terminates only where it cannot belong to the number text
			if c != '-' || (k > bj && byte(bs[k-1].T.U) != 'e' && byte(bs[k-1].T.U) != 'E') {
				break
			}
		}
		k++
	}
	if atEnd && k != len(bs) {
		return nil, 0, false
	}
	text := make([]byte, 0, k-bj)
	for _, sg := range bs[bj:k] {
		text = append(text, byte(sg.T.U))
	}
	if len(text) == 0 {
		return FalseT, 1, true // a number text is never empty
	}
	tok := ts[ti]
	if tok.K == SegInt {
		n, err := strconv.ParseInt(string(text), 10, 64)
		if err != nil || strconv.FormatInt(n, 10) != string(text) {
			return FalseT, len(text), true
		}
		return Eq(tok.T, BvConst(uint64(n), 64)), len(text), true
	}
	f, err := strconv.ParseFloat(string(text), 64)
	if err != nil || fmtFloatG(f) != string(text) {
		return FalseT, len(text), true // not the %v text of any float64
	}
	return Eq(tok.T, F64Const(f)), len(text), true
}
