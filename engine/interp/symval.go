// Symbolic scalar values and their operators.

package interp

import (
	"fmt"
	"go/token"
	"go/types"
	"math"
)

type SymBool struct{ T *Term }

// SymInt is a symbolic integer of Go kind K (bit-vector of that width;
// signedness comes from K, wrap-around as in Go).
type SymInt struct {
	T *Term
	K types.BasicKind
}

// SymFloat is a symbolic float32/float64.
type SymFloat struct {
	T *Term
	K types.BasicKind
}

func kindWidth(k types.BasicKind) int {
	switch k {
	case types.Int8, types.Uint8:
		return 8
	case types.Int16, types.Uint16:
		return 16
	case types.Int32, types.Uint32:
		return 32
	case types.Int, types.Int64, types.Uint, types.Uint64, types.Uintptr:
		return 64
	}
	panic(fmt.Sprintf("kindWidth %v", k))
}

func kindSigned(k types.BasicKind) bool {
	switch k {
	case types.Int, types.Int8, types.Int16, types.Int32, types.Int64:
		return true
	}
	return false
}

func isIntKind(k types.BasicKind) bool {
	switch k {
	case types.Int, types.Int8, types.Int16, types.Int32, types.Int64,
		types.Uint, types.Uint8, types.Uint16, types.Uint32, types.Uint64, types.Uintptr:
		return true
	}
	return false
}

func isSym(v value) bool {
	switch v.(type) {
	case SymBool, SymInt, SymFloat, SymString:
		return true
	}
	return false
}

// scalarTerm returns the term and basic kind of a concrete or symbolic
// scalar (bool, integer or float).
func scalarTerm(v value) (*Term, types.BasicKind, bool) {
	switch v := v.(type) {
	case SymBool:
		return v.T, types.Bool, true
	case SymInt:
		return v.T, v.K, true
	case SymFloat:
		return v.T, v.K, true
	case bool:
		return BoolT(v), types.Bool, true
	case int:
		return BvConst(uint64(v), 64), types.Int, true
	case int8:
		return BvConst(uint64(v), 8), types.Int8, true
	case int16:
		return BvConst(uint64(v), 16), types.Int16, true
	case int32:
		return BvConst(uint64(v), 32), types.Int32, true
	case int64:
		return BvConst(uint64(v), 64), types.Int64, true
	case uint:
		return BvConst(uint64(v), 64), types.Uint, true
	case uint8:
		return BvConst(uint64(v), 8), types.Uint8, true
	case uint16:
		return BvConst(uint64(v), 16), types.Uint16, true
	case uint32:
		return BvConst(uint64(v), 32), types.Uint32, true
	case uint64:
		return BvConst(v, 64), types.Uint64, true
	case uintptr:
		return BvConst(uint64(v), 64), types.Uintptr, true
	case float32:
		return F32Const(v), types.Float32, true
	case float64:
		return F64Const(v), types.Float64, true
	}
	return nil, 0, false
}

// mkScalar wraps a term as a value of kind k, concretising constants.
func mkScalar(t *Term, k types.BasicKind) value {
	if t.IsConst() {
		switch k {
		case types.Bool:
			return t.U == 1
		case types.Int:
			return int(int64(sextU(t.U, 64)))
		case types.Int8:
			return int8(t.U)
		case types.Int16:
			return int16(t.U)
		case types.Int32:
			return int32(t.U)
		case types.Int64:
			return int64(t.U)
		case types.Uint:
			return uint(t.U)
		case types.Uint8:
			return uint8(t.U)
		case types.Uint16:
			return uint16(t.U)
		case types.Uint32:
			return uint32(t.U)
		case types.Uint64:
			return t.U
		case types.Uintptr:
			return uintptr(t.U)
		case types.Float32:
			return math.Float32frombits(uint32(t.U))
		case types.Float64:
			return math.Float64frombits(t.U)
		}
		panic(fmt.Sprintf("mkScalar const kind %v", k))
	}
	switch {
	case k == types.Bool:
		return SymBool{t}
	case k == types.Float32 || k == types.Float64:
		return SymFloat{t, k}
	default:
		return SymInt{t, k}
	}
}

func fsort(k types.BasicKind) Sort {
	if k == types.Float32 {
		return SF32
	}
	return SF64
}

// symBinop implements binary operators when at least one operand is a
// symbolic scalar. Strings are handled in symstr.go.
func symBinop(op token.Token, x, y value) value {
	a, ka, ok1 := scalarTerm(x)
	b, kb, ok2 := scalarTerm(y)
	if !ok1 || !ok2 {
		panic(fmt.Sprintf("symBinop: non-scalar operands %T %s %T", x, op, y))
	}
	switch {
	case ka == types.Bool:
		switch op {
		case token.EQL:
			return mkScalar(Eq(a, b), types.Bool)
		case token.NEQ:
			return mkScalar(Not(Eq(a, b)), types.Bool)
		case token.AND, token.LAND:
			return mkScalar(And(a, b), types.Bool)
		case token.OR, token.LOR:
			return mkScalar(Or(a, b), types.Bool)
		}
	case ka == types.Float32 || ka == types.Float64:
		switch op {
		case token.ADD:
			return mkScalar(FpAdd(a, b), ka)
		case token.SUB:
			return mkScalar(FpSub(a, b), ka)
		case token.MUL:
			return mkScalar(FpMul(a, b), ka)
		case token.QUO:
			return mkScalar(FpDiv(a, b), ka)
		case token.EQL:
			return mkScalar(FpEq(a, b), types.Bool)
		case token.NEQ:
			return mkScalar(Not(FpEq(a, b)), types.Bool)
		case token.LSS:
			return mkScalar(FpLt(a, b), types.Bool)
		case token.LEQ:
			return mkScalar(FpLeq(a, b), types.Bool)
		case token.GTR:
			return mkScalar(FpLt(b, a), types.Bool)
		case token.GEQ:
			return mkScalar(FpLeq(b, a), types.Bool)
		}
	case isIntKind(ka):
		signed := kindSigned(ka)
		switch op {
		case token.SHL, token.SHR:
			// y may have any integer type; clamp the count to the width
			w := a.W
			var cnt *Term
			if b.W > w {
				big := BvUle(BvConst(uint64(w), b.W), b)
				cnt = Ite(big, BvConst(uint64(w), w), Extract(b, w-1, 0))
			} else {
				cnt = Zext(b, w)
			}
			_ = kb
			if op == token.SHL {
				return mkScalar(BvShl(a, cnt), ka)
			}
			if signed {
				return mkScalar(BvAshr(a, cnt), ka)
			}
			return mkScalar(BvLshr(a, cnt), ka)
		}
		if a.W != b.W {
			panic(fmt.Sprintf("symBinop: width mismatch %d %s %d", a.W, op, b.W))
		}
		switch op {
		case token.ADD:
			return mkScalar(BvAdd(a, b), ka)
		case token.SUB:
			return mkScalar(BvSub(a, b), ka)
		case token.MUL:
			return mkScalar(BvMul(a, b), ka)
		case token.QUO:
			if signed {
				return mkScalar(BvSDiv(a, b), ka)
			}
			return mkScalar(BvUDiv(a, b), ka)
		case token.REM:
			if signed {
				return mkScalar(BvSRem(a, b), ka)
			}
			return mkScalar(BvURem(a, b), ka)
		case token.AND:
			return mkScalar(BvAnd(a, b), ka)
		case token.OR:
			return mkScalar(BvOr(a, b), ka)
		case token.XOR:
			return mkScalar(BvXor(a, b), ka)
		case token.AND_NOT:
			return mkScalar(BvAnd(a, BvNot(b)), ka)
		case token.EQL:
			return mkScalar(Eq(a, b), types.Bool)
		case token.NEQ:
			return mkScalar(Not(Eq(a, b)), types.Bool)
		case token.LSS:
			if signed {
				return mkScalar(BvSlt(a, b), types.Bool)
			}
			return mkScalar(BvUlt(a, b), types.Bool)
		case token.LEQ:
			if signed {
				return mkScalar(BvSle(a, b), types.Bool)
			}
			return mkScalar(BvUle(a, b), types.Bool)
		case token.GTR:
			if signed {
				return mkScalar(BvSlt(b, a), types.Bool)
			}
			return mkScalar(BvUlt(b, a), types.Bool)
		case token.GEQ:
			if signed {
				return mkScalar(BvSle(b, a), types.Bool)
			}
			return mkScalar(BvUle(b, a), types.Bool)
		}
	}
	panic(fmt.Sprintf("symBinop: unsupported %T %s %T", x, op, y))
}

func symUnop(op token.Token, x value) value {
	a, k, ok := scalarTerm(x)
	if !ok {
		panic(fmt.Sprintf("symUnop: %s %T", op, x))
	}
	switch op {
	case token.NOT:
		return mkScalar(Not(a), types.Bool)
	case token.SUB:
		if k == types.Float32 || k == types.Float64 {
			return mkScalar(FpNeg(a), k)
		}
		return mkScalar(BvNeg(a), k)
	case token.XOR:
		return mkScalar(BvNot(a), k)
	}
	panic(fmt.Sprintf("symUnop: unsupported %s %T", op, x))
}

// symConvNumeric converts a symbolic numeric scalar to basic kind dst.
// Float→int uses truncation toward zero with amd64's result
// (0x8000000000000000) for NaN / out-of-range values when the destination
// is a signed 64-bit integer; for other destinations the value is assumed
// in range by the caller (see convAssume).
func symConvNumeric(dst types.BasicKind, x value) value {
	a, k, ok := scalarTerm(x)
	if !ok {
		panic(fmt.Sprintf("symConvNumeric: %T", x))
	}
	srcF := k == types.Float32 || k == types.Float64
	dstF := dst == types.Float32 || dst == types.Float64
	switch {
	case srcF && dstF:
		return mkScalar(FpToFp(a, fsort(dst)), dst)
	case srcF && !dstF:
		w := kindWidth(dst)
		if kindSigned(dst) {
			t := FpToBV(a, true, w)
			if w == 64 {
				lim := fpConstOf(a.Sort, 9223372036854775808.0)
				inr := And(Not(FpIsNaN(a)), FpLt(a, lim), FpLeq(FpNeg(lim), a))
				t = Ite(inr, t, BvConst(0x8000000000000000, 64))
			}
			return mkScalar(t, dst)
		}
		return mkScalar(FpToBV(a, false, w), dst)
	case !srcF && dstF:
		return mkScalar(FpFromBV(a, kindSigned(k), fsort(dst)), dst)
	default:
		w := kindWidth(dst)
		if kindSigned(k) {
			return mkScalar(Sext(a, w), dst)
		}
		return mkScalar(Zext(a, w), dst)
	}
}

// fpInRange is the condition under which a float→integer conversion to
// kind dst is defined by the Go spec.
func fpInRange(a *Term, dst types.BasicKind) *Term {
	w := kindWidth(dst)
	tr := FpTrunc(a)
	if kindSigned(dst) {
		lim := fpConstOf(a.Sort, math.Ldexp(1, w-1))
		return And(Not(FpIsNaN(a)), FpLt(tr, lim), FpLeq(FpNeg(lim), tr))
	}
	lim := fpConstOf(a.Sort, math.Ldexp(1, w))
	return And(Not(FpIsNaN(a)), FpLt(tr, lim), FpLeq(fpConstOf(a.Sort, 0), tr))
}

// symEquals returns x == y for values of static type t as bool or SymBool.
func symEquals(t types.Type, x, y value) value {
	switch x := x.(type) {
	case iface:
		yi := y.(iface)
		if !sameType(x.t, yi.t) {
			return false
		}
		if x.t == nil {
			return true
		}
		return symEquals(x.t, x.v, yi.v)
	case structure:
		ys := y.(structure)
		tStruct := t.Underlying().(*types.Struct)
		acc := value(true)
		for i, n := 0, tStruct.NumFields(); i < n; i++ {
			if f := tStruct.Field(i); !f.Anonymous() || true {
				acc = symAnd(acc, symEquals(f.Type(), x[i], ys[i]))
				if b, ok := acc.(bool); ok && !b {
					return false
				}
			}
		}
		return acc
	case array:
		ya := y.(array)
		tElt := t.Underlying().(*types.Array).Elem()
		acc := value(true)
		for i := range x {
			acc = symAnd(acc, symEquals(tElt, x[i], ya[i]))
			if b, ok := acc.(bool); ok && !b {
				return false
			}
		}
		return acc
	}
	if isStringVal(x) && isStringVal(y) {
		if xs, ok := x.(string); ok {
			if ys, ok := y.(string); ok {
				return xs == ys
			}
		}
		return strEq(x, y)
	}
	if isSym(x) || isSym(y) {
		return symBinop(token.EQL, x, y)
	}
	return equals(t, x, y)
}

func symAnd(a, b value) value {
	if x, ok := a.(bool); ok {
		if !x {
			return false
		}
		return b
	}
	if y, ok := b.(bool); ok {
		if !y {
			return false
		}
		return a
	}
	return SymBool{And(a.(SymBool).T, b.(SymBool).T)}
}

func symNot(a value) value {
	if x, ok := a.(bool); ok {
		return !x
	}
	return mkScalar(Not(a.(SymBool).T), types.Bool)
}

func boolTerm(v value) *Term {
	switch v := v.(type) {
	case bool:
		return BoolT(v)
	case SymBool:
		return v.T
	}
	panic(fmt.Sprintf("boolTerm: %T", v))
}

// concreteInt returns the int64 value of a concrete integer value.
func concreteInt(v value) (int64, bool) {
	switch v.(type) {
	case int, int8, int16, int32, int64, uint, uint8, uint16, uint32, uint64, uintptr:
		return asInt64(v), true
	}
	return 0, false
}
