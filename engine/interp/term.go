// Symbolic terms for the gosym engine: a small typed term language over Bool,
// fixed-width bit-vectors and IEEE floats (32/64), printed as SMT-LIB2.
//
// Terms are immutable. There is no global intern table (workers run in
// parallel); every term carries a 128-bit structural hash that is used for
// de-duplication and query caching, and a lazily rendered SMT string.

package interp

import (
	"fmt"
	"math"
	"math/bits"
	"sort"
	"strings"
)

type Sort uint8

const (
	SBool Sort = iota
	SBV
	SF32
	SF64
)

type Op uint8

const (
	OpVar Op = iota
	OpConst
	OpNot
	OpAnd
	OpOr
	OpIte
	OpEq // structural equality (= a b)
	// bit-vectors
	OpBvAdd
	OpBvSub
	OpBvMul
	OpBvUDiv
	OpBvSDiv
	OpBvURem
	OpBvSRem
	OpBvAnd
	OpBvOr
	OpBvXor
	OpBvShl
	OpBvLshr
	OpBvAshr
	OpBvNeg
	OpBvNot
	OpBvUlt
	OpBvUle
	OpBvSlt
	OpBvSle
	OpExtract // P1=hi, P2=lo
	OpZext    // result width W
	OpSext    // result width W
	OpConcat
	// floats
	OpFpAdd
	OpFpSub
	OpFpMul
	OpFpDiv
	OpFpNeg
	OpFpAbs
	OpFpLt
	OpFpLeq
	OpFpEq // IEEE equality
	OpFpIsNaN
	OpFpIsInf
	OpFpFromSBV // to_fp RNE signed bv
	OpFpFromUBV
	OpFpToFp  // float width conversion RNE
	OpFpToSBV // RTZ, result width W
	OpFpToUBV
	OpFpFromBits // reinterpret BV as FP
	OpFpTrunc    // roundToIntegral RTZ
	OpFpFloor    // roundToIntegral RTN
	OpFpCeil     // roundToIntegral RTP
	OpFpRound    // roundToIntegral RNA (math.Round)
	OpFmod       // uninterpreted fmod(a,b) on F64
)

type Term struct {
	Op     Op
	Sort   Sort
	W      int // bit-vector width (SBV) or result width
	Args   []*Term
	U      uint64 // constant payload: bool 0/1, bv value (masked), fp bits
	Name   string // OpVar
	P1, P2 int
	h1, h2 uint64
	smt    string
	vars   []string // sorted unique variable names, computed lazily
	varsOK bool
}

func (t *Term) IsConst() bool { return t.Op == OpConst }

func mask(w int) uint64 {
	if w >= 64 {
		return ^uint64(0)
	}
	return (uint64(1) << uint(w)) - 1
}

func mix(h, x uint64) uint64 {
	h ^= x + 0x9e3779b97f4a7c15 + (h << 6) + (h >> 2)
	h *= 0xff51afd7ed558ccd
	h ^= h >> 33
	return h
}

func (t *Term) finish() *Term {
	h1 := mix(uint64(t.Op)+1, uint64(t.Sort)<<8|uint64(t.W))
	h2 := mix(uint64(t.Op)*31+7, uint64(t.W)<<8|uint64(t.Sort))
	h1 = mix(h1, t.U)
	h2 = mix(h2, t.U^0xabcdef)
	h1 = mix(h1, uint64(t.P1)<<16|uint64(t.P2))
	h2 = mix(h2, uint64(t.P2)<<16|uint64(t.P1))
	for i := 0; i < len(t.Name); i++ {
		h1 = mix(h1, uint64(t.Name[i]))
		h2 = mix(h2, uint64(t.Name[i])+uint64(i))
	}
	for _, a := range t.Args {
		h1 = mix(h1, a.h1)
		h2 = mix(h2, a.h2)
	}
	t.h1, t.h2 = h1, h2
	return t
}

type TermKey struct{ a, b uint64 }

func (t *Term) Key() TermKey { return TermKey{t.h1, t.h2} }

func SameTerm(a, b *Term) bool { return a == b || (a.h1 == b.h1 && a.h2 == b.h2) }

// ---------------------------------------------------------------- constructors

var (
	TrueT  = (&Term{Op: OpConst, Sort: SBool, U: 1}).finish()
	FalseT = (&Term{Op: OpConst, Sort: SBool, U: 0}).finish()
)

func BoolT(b bool) *Term {
	if b {
		return TrueT
	}
	return FalseT
}

func BvConst(v uint64, w int) *Term {
	return (&Term{Op: OpConst, Sort: SBV, W: w, U: v & mask(w)}).finish()
}

func F64Const(f float64) *Term {
	b := math.Float64bits(f)
	if f != f {
		b = 0x7ff8000000000001 // canonical NaN
	}
	return (&Term{Op: OpConst, Sort: SF64, W: 64, U: b}).finish()
}

func F32Const(f float32) *Term {
	b := uint64(math.Float32bits(f))
	if f != f {
		b = 0x7fc00001
	}
	return (&Term{Op: OpConst, Sort: SF32, W: 32, U: b}).finish()
}

func VarT(name string, s Sort, w int) *Term {
	return (&Term{Op: OpVar, Sort: s, W: w, Name: name}).finish()
}

func mk(op Op, s Sort, w int, args ...*Term) *Term {
	return (&Term{Op: op, Sort: s, W: w, Args: args}).finish()
}

func Not(a *Term) *Term {
	if a.IsConst() {
		return BoolT(a.U == 0)
	}
	if a.Op == OpNot {
		return a.Args[0]
	}
	return mk(OpNot, SBool, 0, a)
}

func And(as ...*Term) *Term {
	var out []*Term
	for _, a := range as {
		if a.IsConst() {
			if a.U == 0 {
				return FalseT
			}
			continue
		}
		if a.Op == OpAnd {
			out = append(out, a.Args...)
			continue
		}
		out = append(out, a)
	}
	switch len(out) {
	case 0:
		return TrueT
	case 1:
		return out[0]
	}
	return mk(OpAnd, SBool, 0, out...)
}

func Or(as ...*Term) *Term {
	var out []*Term
	for _, a := range as {
		if a.IsConst() {
			if a.U == 1 {
				return TrueT
			}
			continue
		}
		if a.Op == OpOr {
			out = append(out, a.Args...)
			continue
		}
		out = append(out, a)
	}
	switch len(out) {
	case 0:
		return FalseT
	case 1:
		return out[0]
	}
	return mk(OpOr, SBool, 0, out...)
}

func Ite(c, a, b *Term) *Term {
	if c.IsConst() {
		if c.U == 1 {
			return a
		}
		return b
	}
	if SameTerm(a, b) {
		return a
	}
	if a.Sort == SBool && a.IsConst() && b.IsConst() {
		if a.U == 1 && b.U == 0 {
			return c
		}
		if a.U == 0 && b.U == 1 {
			return Not(c)
		}
	}
	return mk(OpIte, a.Sort, a.W, c, a, b)
}

// Eq is SMT structural equality; for floats it identifies all NaNs and
// distinguishes +0 from -0 (use FpEq for Go's ==).
func Eq(a, b *Term) *Term {
	if a.Sort != b.Sort || (a.Sort == SBV && a.W != b.W) {
		panic(fmt.Sprintf("Eq: sort mismatch %v/%d vs %v/%d", a.Sort, a.W, b.Sort, b.W))
	}
	if SameTerm(a, b) {
		return TrueT
	}
	if a.IsConst() && b.IsConst() {
		return BoolT(a.U == b.U)
	}
	if a.Sort == SBool {
		if a.IsConst() {
			if a.U == 1 {
				return b
			}
			return Not(b)
		}
		if b.IsConst() {
			if b.U == 1 {
				return a
			}
			return Not(a)
		}
	}
	return mk(OpEq, SBool, 0, a, b)
}

func bvBin(op Op, a, b *Term) *Term {
	if a.Sort != SBV || b.Sort != SBV || a.W != b.W {
		panic(fmt.Sprintf("bvBin %d: sort mismatch %v/%d vs %v/%d", op, a.Sort, a.W, b.Sort, b.W))
	}
	if a.IsConst() && b.IsConst() {
		if v, ok := evalBvBin(op, a.U, b.U, a.W); ok {
			return BvConst(v, a.W)
		}
	}
	return mk(op, SBV, a.W, a, b)
}

func bvCmp(op Op, a, b *Term) *Term {
	if a.Sort != SBV || b.Sort != SBV || a.W != b.W {
		panic(fmt.Sprintf("bvCmp %d: sort mismatch %v/%d vs %v/%d", op, a.Sort, a.W, b.Sort, b.W))
	}
	if a.IsConst() && b.IsConst() {
		return BoolT(evalBvCmp(op, a.U, b.U, a.W))
	}
	return mk(op, SBool, 0, a, b)
}

func BvAdd(a, b *Term) *Term  { return bvBin(OpBvAdd, a, b) }
func BvSub(a, b *Term) *Term  { return bvBin(OpBvSub, a, b) }
func BvMul(a, b *Term) *Term  { return bvBin(OpBvMul, a, b) }
func BvUDiv(a, b *Term) *Term { return bvBin(OpBvUDiv, a, b) }
func BvSDiv(a, b *Term) *Term { return bvBin(OpBvSDiv, a, b) }
func BvURem(a, b *Term) *Term { return bvBin(OpBvURem, a, b) }
func BvSRem(a, b *Term) *Term { return bvBin(OpBvSRem, a, b) }
func BvAnd(a, b *Term) *Term  { return bvBin(OpBvAnd, a, b) }
func BvOr(a, b *Term) *Term   { return bvBin(OpBvOr, a, b) }
func BvXor(a, b *Term) *Term  { return bvBin(OpBvXor, a, b) }
func BvShl(a, b *Term) *Term  { return bvBin(OpBvShl, a, b) }
func BvLshr(a, b *Term) *Term { return bvBin(OpBvLshr, a, b) }
func BvAshr(a, b *Term) *Term { return bvBin(OpBvAshr, a, b) }
func BvUlt(a, b *Term) *Term  { return bvCmp(OpBvUlt, a, b) }
func BvUle(a, b *Term) *Term  { return bvCmp(OpBvUle, a, b) }
func BvSlt(a, b *Term) *Term  { return bvCmp(OpBvSlt, a, b) }
func BvSle(a, b *Term) *Term  { return bvCmp(OpBvSle, a, b) }

func BvNeg(a *Term) *Term {
	if a.IsConst() {
		return BvConst(-a.U, a.W)
	}
	return mk(OpBvNeg, SBV, a.W, a)
}

func BvNot(a *Term) *Term {
	if a.IsConst() {
		return BvConst(^a.U, a.W)
	}
	return mk(OpBvNot, SBV, a.W, a)
}

func Extract(a *Term, hi, lo int) *Term {
	w := hi - lo + 1
	if lo == 0 && w == a.W {
		return a
	}
	if a.IsConst() {
		return BvConst(a.U>>uint(lo), w)
	}
	if (a.Op == OpZext || a.Op == OpSext) && hi < a.Args[0].W {
		return Extract(a.Args[0], hi, lo)
	}
	t := &Term{Op: OpExtract, Sort: SBV, W: w, Args: []*Term{a}, P1: hi, P2: lo}
	return t.finish()
}

func Zext(a *Term, w int) *Term {
	if w == a.W {
		return a
	}
	if w < a.W {
		return Extract(a, w-1, 0)
	}
	if a.IsConst() {
		return BvConst(a.U, w)
	}
	return mk(OpZext, SBV, w, a)
}

func sextU(v uint64, from int) uint64 {
	if from >= 64 {
		return v
	}
	if v&(uint64(1)<<uint(from-1)) != 0 {
		return v | ^mask(from)
	}
	return v & mask(from)
}

func Sext(a *Term, w int) *Term {
	if w == a.W {
		return a
	}
	if w < a.W {
		return Extract(a, w-1, 0)
	}
	if a.IsConst() {
		return BvConst(sextU(a.U, a.W), w)
	}
	return mk(OpSext, SBV, w, a)
}

func Concat(hi, lo *Term) *Term {
	w := hi.W + lo.W
	if hi.IsConst() && lo.IsConst() && w <= 64 {
		return BvConst(hi.U<<uint(lo.W)|lo.U, w)
	}
	return mk(OpConcat, SBV, w, hi, lo)
}

func fpSort(a *Term) {
	if a.Sort != SF32 && a.Sort != SF64 {
		panic("float term expected")
	}
}

func fpConstOf(s Sort, f float64) *Term {
	if s == SF32 {
		return F32Const(float32(f))
	}
	return F64Const(f)
}

func fpVal(t *Term) float64 {
	if t.Sort == SF32 {
		return float64(math.Float32frombits(uint32(t.U)))
	}
	return math.Float64frombits(t.U)
}

func fpBin(op Op, a, b *Term) *Term {
	fpSort(a)
	if a.Sort != b.Sort {
		panic("fpBin: sort mismatch")
	}
	if a.IsConst() && b.IsConst() {
		x, y := fpVal(a), fpVal(b)
		if a.Sort == SF32 {
			x32, y32 := float32(x), float32(y)
			switch op {
			case OpFpAdd:
				return F32Const(x32 + y32)
			case OpFpSub:
				return F32Const(x32 - y32)
			case OpFpMul:
				return F32Const(x32 * y32)
			case OpFpDiv:
				return F32Const(x32 / y32)
			}
		} else {
			switch op {
			case OpFpAdd:
				return F64Const(x + y)
			case OpFpSub:
				return F64Const(x - y)
			case OpFpMul:
				return F64Const(x * y)
			case OpFpDiv:
				return F64Const(x / y)
			}
		}
	}
	return mk(op, a.Sort, a.W, a, b)
}

func FpAdd(a, b *Term) *Term { return fpBin(OpFpAdd, a, b) }
func FpSub(a, b *Term) *Term { return fpBin(OpFpSub, a, b) }
func FpMul(a, b *Term) *Term { return fpBin(OpFpMul, a, b) }
func FpDiv(a, b *Term) *Term { return fpBin(OpFpDiv, a, b) }

func FpNeg(a *Term) *Term {
	fpSort(a)
	if a.IsConst() {
		return fpConstOf(a.Sort, -fpVal(a))
	}
	return mk(OpFpNeg, a.Sort, a.W, a)
}

func FpAbs(a *Term) *Term {
	fpSort(a)
	if a.IsConst() {
		return fpConstOf(a.Sort, math.Abs(fpVal(a)))
	}
	return mk(OpFpAbs, a.Sort, a.W, a)
}

func fpCmp(op Op, a, b *Term) *Term {
	fpSort(a)
	if a.Sort != b.Sort {
		panic("fpCmp: sort mismatch")
	}
	if a.IsConst() && b.IsConst() {
		x, y := fpVal(a), fpVal(b)
		switch op {
		case OpFpLt:
			return BoolT(x < y)
		case OpFpLeq:
			return BoolT(x <= y)
		case OpFpEq:
			return BoolT(x == y)
		}
	}
	return mk(op, SBool, 0, a, b)
}

func FpLt(a, b *Term) *Term  { return fpCmp(OpFpLt, a, b) }
func FpLeq(a, b *Term) *Term { return fpCmp(OpFpLeq, a, b) }
func FpEq(a, b *Term) *Term  { return fpCmp(OpFpEq, a, b) }

func FpIsNaN(a *Term) *Term {
	fpSort(a)
	if a.IsConst() {
		return BoolT(math.IsNaN(fpVal(a)))
	}
	return mk(OpFpIsNaN, SBool, 0, a)
}

func FpIsInf(a *Term) *Term {
	fpSort(a)
	if a.IsConst() {
		return BoolT(math.IsInf(fpVal(a), 0))
	}
	return mk(OpFpIsInf, SBool, 0, a)
}

func FpFromBits(a *Term, s Sort) *Term {
	if a.IsConst() {
		if s == SF32 {
			return F32Const(math.Float32frombits(uint32(a.U)))
		}
		return F64Const(math.Float64frombits(a.U))
	}
	w := 64
	if s == SF32 {
		w = 32
	}
	return mk(OpFpFromBits, s, w, a)
}

func FpFromBV(a *Term, signed bool, s Sort) *Term {
	w := 64
	if s == SF32 {
		w = 32
	}
	if a.IsConst() {
		var f float64
		if signed {
			f = float64(int64(sextU(a.U, a.W)))
			if s == SF32 {
				return F32Const(float32(int64(sextU(a.U, a.W))))
			}
		} else {
			f = float64(a.U)
			if s == SF32 {
				return F32Const(float32(a.U))
			}
		}
		return F64Const(f)
	}
	if signed {
		return mk(OpFpFromSBV, s, w, a)
	}
	return mk(OpFpFromUBV, s, w, a)
}

func FpToFp(a *Term, s Sort) *Term {
	fpSort(a)
	if a.Sort == s {
		return a
	}
	if a.IsConst() {
		return fpConstOf(s, fpVal(a))
	}
	w := 64
	if s == SF32 {
		w = 32
	}
	return mk(OpFpToFp, s, w, a)
}

// FpToBV converts with truncation toward zero. The result for NaN / out of
// range inputs is unspecified in SMT-LIB (and implementation-defined in Go);
// callers record the in-range assumption.
func FpToBV(a *Term, signed bool, w int) *Term {
	fpSort(a)
	if a.IsConst() {
		f := fpVal(a)
		if f == f && math.Abs(f) < 9.2e18 {
			if signed {
				return BvConst(uint64(int64(f)), w)
			}
			if f >= 0 {
				return BvConst(uint64(f), w)
			}
			return BvConst(uint64(int64(f)), w)
		}
	}
	if signed {
		return mk(OpFpToSBV, SBV, w, a)
	}
	return mk(OpFpToUBV, SBV, w, a)
}

func FpTrunc(a *Term) *Term {
	fpSort(a)
	if a.IsConst() {
		return fpConstOf(a.Sort, math.Trunc(fpVal(a)))
	}
	return mk(OpFpTrunc, a.Sort, a.W, a)
}

func fpRTI(op Op, f func(float64) float64, a *Term) *Term {
	fpSort(a)
	if a.IsConst() {
		return fpConstOf(a.Sort, f(fpVal(a)))
	}
	return mk(op, a.Sort, a.W, a)
}
func FpFloor(a *Term) *Term { return fpRTI(OpFpFloor, math.Floor, a) }
func FpCeil(a *Term) *Term  { return fpRTI(OpFpCeil, math.Ceil, a) }
func FpRound(a *Term) *Term { return fpRTI(OpFpRound, math.Round, a) }

func Fmod(a, b *Term) *Term {
	if a.IsConst() && b.IsConst() {
		return F64Const(math.Mod(fpVal(a), fpVal(b)))
	}
	return mk(OpFmod, SF64, 64, a, b)
}

// ---------------------------------------------------------------- evaluation

func evalBvBin(op Op, a, b uint64, w int) (uint64, bool) {
	m := mask(w)
	a &= m
	b &= m
	sa, sb := int64(sextU(a, w)), int64(sextU(b, w))
	switch op {
	case OpBvAdd:
		return (a + b) & m, true
	case OpBvSub:
		return (a - b) & m, true
	case OpBvMul:
		return (a * b) & m, true
	case OpBvUDiv:
		if b == 0 {
			return m, true
		}
		return (a / b) & m, true
	case OpBvURem:
		if b == 0 {
			return a, true
		}
		return (a % b) & m, true
	case OpBvSDiv:
		if b == 0 {
			if sa < 0 {
				return 1, true
			}
			return m, true
		}
		if sb == -1 {
			return uint64(-sa) & m, true
		}
		return uint64(sa/sb) & m, true
	case OpBvSRem:
		if b == 0 {
			return a, true
		}
		if sb == -1 {
			return 0, true
		}
		return uint64(sa%sb) & m, true
	case OpBvAnd:
		return a & b, true
	case OpBvOr:
		return a | b, true
	case OpBvXor:
		return a ^ b, true
	case OpBvShl:
		if b >= uint64(w) {
			return 0, true
		}
		return (a << b) & m, true
	case OpBvLshr:
		if b >= uint64(w) {
			return 0, true
		}
		return (a >> b) & m, true
	case OpBvAshr:
		if b >= uint64(w) {
			if sa < 0 {
				return m, true
			}
			return 0, true
		}
		return uint64(sa>>b) & m, true
	}
	return 0, false
}

func evalBvCmp(op Op, a, b uint64, w int) bool {
	m := mask(w)
	a &= m
	b &= m
	sa, sb := int64(sextU(a, w)), int64(sextU(b, w))
	switch op {
	case OpBvUlt:
		return a < b
	case OpBvUle:
		return a <= b
	case OpBvSlt:
		return sa < sb
	case OpBvSle:
		return sa <= sb
	}
	panic("evalBvCmp")
}

// Model maps variable names to their bit patterns.
type Model map[string]uint64

type evalErr struct{ why string }

// Eval evaluates t under m. ok=false if the term contains an uninterpreted
// function, an unspecified conversion or an unassigned variable.
func Eval(t *Term, m Model) (v uint64, ok bool) {
	defer func() {
		if r := recover(); r != nil {
			if _, is := r.(evalErr); is {
				ok = false
				return
			}
			panic(r)
		}
	}()
	memo := map[*Term]uint64{}
	return eval(t, m, memo), true
}

func eval(t *Term, m Model, memo map[*Term]uint64) uint64 {
	if t.Op == OpConst {
		return t.U
	}
	if v, ok := memo[t]; ok {
		return v
	}
	v := eval1(t, m, memo)
	memo[t] = v
	return v
}

func b2u(b bool) uint64 {
	if b {
		return 1
	}
	return 0
}

func fpOf(s Sort, u uint64) float64 {
	if s == SF32 {
		return float64(math.Float32frombits(uint32(u)))
	}
	return math.Float64frombits(u)
}

func fpBits(s Sort, f float64) uint64 {
	if s == SF32 {
		x := float32(f)
		if x != x {
			return 0x7fc00001
		}
		return uint64(math.Float32bits(x))
	}
	if f != f {
		return 0x7ff8000000000001
	}
	return math.Float64bits(f)
}

func eval1(t *Term, m Model, memo map[*Term]uint64) uint64 {
	ev := func(i int) uint64 { return eval(t.Args[i], m, memo) }
	switch t.Op {
	case OpVar:
		v := m[t.Name] // a variable absent from the model is unconstrained so far: 0 is as good as any value
		if t.Sort == SBV {
			v &= mask(t.W)
		}
		return v
	case OpNot:
		return 1 - ev(0)
	case OpAnd:
		for i := range t.Args {
			if ev(i) == 0 {
				return 0
			}
		}
		return 1
	case OpOr:
		for i := range t.Args {
			if ev(i) == 1 {
				return 1
			}
		}
		return 0
	case OpIte:
		if ev(0) == 1 {
			return ev(1)
		}
		return ev(2)
	case OpEq:
		a, b := ev(0), ev(1)
		s := t.Args[0].Sort
		if s == SF32 || s == SF64 {
			fa, fb := fpOf(s, a), fpOf(s, b)
			if fa != fa || fb != fb {
				return b2u(fa != fa && fb != fb)
			}
		}
		return b2u(a == b)
	case OpBvAdd, OpBvSub, OpBvMul, OpBvUDiv, OpBvSDiv, OpBvURem, OpBvSRem, OpBvAnd, OpBvOr, OpBvXor, OpBvShl, OpBvLshr, OpBvAshr:
		v, _ := evalBvBin(t.Op, ev(0), ev(1), t.W)
		return v
	case OpBvNeg:
		return (-ev(0)) & mask(t.W)
	case OpBvNot:
		return (^ev(0)) & mask(t.W)
	case OpBvUlt, OpBvUle, OpBvSlt, OpBvSle:
		return b2u(evalBvCmp(t.Op, ev(0), ev(1), t.Args[0].W))
	case OpExtract:
		return (ev(0) >> uint(t.P2)) & mask(t.W)
	case OpZext:
		return ev(0) & mask(t.Args[0].W)
	case OpSext:
		return sextU(ev(0), t.Args[0].W) & mask(t.W)
	case OpConcat:
		if t.W > 64 {
			panic(evalErr{"concat > 64"})
		}
		return (ev(0)<<uint(t.Args[1].W) | ev(1)) & mask(t.W)
	case OpFpAdd, OpFpSub, OpFpMul, OpFpDiv:
		s := t.Sort
		a, b := fpOf(s, ev(0)), fpOf(s, ev(1))
		if s == SF32 {
			x, y := float32(a), float32(b)
			var r float32
			switch t.Op {
			case OpFpAdd:
				r = x + y
			case OpFpSub:
				r = x - y
			case OpFpMul:
				r = x * y
			case OpFpDiv:
				r = x / y
			}
			return fpBits(s, float64(r))
		}
		var r float64
		switch t.Op {
		case OpFpAdd:
			r = a + b
		case OpFpSub:
			r = a - b
		case OpFpMul:
			r = a * b
		case OpFpDiv:
			r = a / b
		}
		return fpBits(s, r)
	case OpFpNeg:
		return fpBits(t.Sort, -fpOf(t.Sort, ev(0)))
	case OpFpAbs:
		return fpBits(t.Sort, math.Abs(fpOf(t.Sort, ev(0))))
	case OpFpLt:
		s := t.Args[0].Sort
		return b2u(fpOf(s, ev(0)) < fpOf(s, ev(1)))
	case OpFpLeq:
		s := t.Args[0].Sort
		return b2u(fpOf(s, ev(0)) <= fpOf(s, ev(1)))
	case OpFpEq:
		s := t.Args[0].Sort
		return b2u(fpOf(s, ev(0)) == fpOf(s, ev(1)))
	case OpFpIsNaN:
		f := fpOf(t.Args[0].Sort, ev(0))
		return b2u(f != f)
	case OpFpIsInf:
		return b2u(math.IsInf(fpOf(t.Args[0].Sort, ev(0)), 0))
	case OpFpFromBits:
		return fpBits(t.Sort, fpOf(t.Sort, ev(0)))
	case OpFpFromSBV:
		a := t.Args[0]
		x := int64(sextU(ev(0), a.W))
		if t.Sort == SF32 {
			return fpBits(SF32, float64(float32(x)))
		}
		return fpBits(SF64, float64(x))
	case OpFpFromUBV:
		x := ev(0)
		if t.Sort == SF32 {
			return fpBits(SF32, float64(float32(x)))
		}
		return fpBits(SF64, float64(x))
	case OpFpToFp:
		return fpBits(t.Sort, fpOf(t.Args[0].Sort, ev(0)))
	case OpFpToSBV:
		f := fpOf(t.Args[0].Sort, ev(0))
		tr := math.Trunc(f)
		lim := math.Ldexp(1, t.W-1)
		if f != f || tr >= lim || tr < -lim {
			panic(evalErr{"fp.to_sbv out of range"})
		}
		return uint64(int64(tr)) & mask(t.W)
	case OpFpToUBV:
		f := fpOf(t.Args[0].Sort, ev(0))
		tr := math.Trunc(f)
		lim := math.Ldexp(1, t.W)
		if f != f || tr >= lim || tr < 0 {
			panic(evalErr{"fp.to_ubv out of range"})
		}
		return uint64(tr) & mask(t.W)
	case OpFpTrunc:
		return fpBits(t.Sort, math.Trunc(fpOf(t.Sort, ev(0))))
	case OpFpFloor:
		return fpBits(t.Sort, math.Floor(fpOf(t.Sort, ev(0))))
	case OpFpCeil:
		return fpBits(t.Sort, math.Ceil(fpOf(t.Sort, ev(0))))
	case OpFpRound:
		return fpBits(t.Sort, math.Round(fpOf(t.Sort, ev(0))))
	case OpFmod:
		return fpBits(SF64, math.Mod(fpOf(SF64, ev(0)), fpOf(SF64, ev(1))))
	}
	panic(fmt.Sprintf("eval: unhandled op %d", t.Op))
}

// ---------------------------------------------------------------- variables

func (t *Term) Vars() []string {
	if t.varsOK {
		return t.vars
	}
	set := map[string]bool{}
	seen := map[*Term]bool{}
	var walk func(x *Term)
	walk = func(x *Term) {
		if seen[x] {
			return
		}
		seen[x] = true
		if x.varsOK {
			for _, v := range x.vars {
				set[v] = true
			}
			return
		}
		if x.Op == OpVar {
			set[x.Name] = true
		}
		for _, a := range x.Args {
			walk(a)
		}
	}
	walk(t)
	out := make([]string, 0, len(set))
	for v := range set {
		out = append(out, v)
	}
	sort.Strings(out)
	t.vars, t.varsOK = out, true
	return out
}

func (t *Term) HasOp(op Op) bool {
	seen := map[*Term]bool{}
	var walk func(x *Term) bool
	walk = func(x *Term) bool {
		if seen[x] {
			return false
		}
		seen[x] = true
		if x.Op == op {
			return true
		}
		for _, a := range x.Args {
			if walk(a) {
				return true
			}
		}
		return false
	}
	return walk(t)
}

// ---------------------------------------------------------------- SMT-LIB

func sortSMT(s Sort, w int) string {
	switch s {
	case SBool:
		return "Bool"
	case SBV:
		return fmt.Sprintf("(_ BitVec %d)", w)
	case SF32:
		return "(_ FloatingPoint 8 24)"
	case SF64:
		return "(_ FloatingPoint 11 53)"
	}
	panic("sortSMT")
}

func bvLit(v uint64, w int) string {
	if w%4 == 0 {
		return fmt.Sprintf("#x%0*x", w/4, v&mask(w))
	}
	return fmt.Sprintf("#b%0*b", w, v&mask(w))
}

func fpLit(s Sort, u uint64) string {
	if s == SF32 {
		f := math.Float32frombits(uint32(u))
		if f != f {
			return "(_ NaN 8 24)"
		}
		return fmt.Sprintf("(fp #b%b #b%08b #b%023b)", (u>>31)&1, (u>>23)&0xff, u&0x7fffff)
	}
	f := math.Float64frombits(u)
	if f != f {
		return "(_ NaN 11 53)"
	}
	return fmt.Sprintf("(fp #b%b #b%011b #b%052b)", (u>>63)&1, (u>>52)&0x7ff, u&((1<<52)-1))
}

var opNames = map[Op]string{
	OpNot: "not", OpAnd: "and", OpOr: "or", OpIte: "ite", OpEq: "=",
	OpBvAdd: "bvadd", OpBvSub: "bvsub", OpBvMul: "bvmul", OpBvUDiv: "bvudiv", OpBvSDiv: "bvsdiv",
	OpBvURem: "bvurem", OpBvSRem: "bvsrem", OpBvAnd: "bvand", OpBvOr: "bvor", OpBvXor: "bvxor",
	OpBvShl: "bvshl", OpBvLshr: "bvlshr", OpBvAshr: "bvashr", OpBvNeg: "bvneg", OpBvNot: "bvnot",
	OpBvUlt: "bvult", OpBvUle: "bvule", OpBvSlt: "bvslt", OpBvSle: "bvsle", OpConcat: "concat",
	OpFpNeg: "fp.neg", OpFpAbs: "fp.abs", OpFpLt: "fp.lt", OpFpLeq: "fp.leq", OpFpEq: "fp.eq",
	OpFpIsNaN: "fp.isNaN", OpFpIsInf: "fp.isInfinite", OpFmod: "fmod",
}

// SMT renders the term. Shared sub-terms are rendered once per node (the
// string is cached on the node), so DAGs print as trees; engine terms are
// small enough for that.
func (t *Term) SMT() string {
	if t.smt != "" {
		return t.smt
	}
	var s string
	switch t.Op {
	case OpVar:
		s = t.Name
	case OpConst:
		switch t.Sort {
		case SBool:
			if t.U == 1 {
				s = "true"
			} else {
				s = "false"
			}
		case SBV:
			s = bvLit(t.U, t.W)
		default:
			s = fpLit(t.Sort, t.U)
		}
	case OpExtract:
		s = fmt.Sprintf("((_ extract %d %d) %s)", t.P1, t.P2, t.Args[0].SMT())
	case OpZext:
		s = fmt.Sprintf("((_ zero_extend %d) %s)", t.W-t.Args[0].W, t.Args[0].SMT())
	case OpSext:
		s = fmt.Sprintf("((_ sign_extend %d) %s)", t.W-t.Args[0].W, t.Args[0].SMT())
	case OpFpAdd, OpFpSub, OpFpMul, OpFpDiv:
		n := map[Op]string{OpFpAdd: "fp.add", OpFpSub: "fp.sub", OpFpMul: "fp.mul", OpFpDiv: "fp.div"}[t.Op]
		s = fmt.Sprintf("(%s RNE %s %s)", n, t.Args[0].SMT(), t.Args[1].SMT())
	case OpFpFromSBV:
		s = fmt.Sprintf("((_ to_fp %s) RNE %s)", ebsb(t.Sort), t.Args[0].SMT())
	case OpFpFromUBV:
		s = fmt.Sprintf("((_ to_fp_unsigned %s) RNE %s)", ebsb(t.Sort), t.Args[0].SMT())
	case OpFpToFp:
		s = fmt.Sprintf("((_ to_fp %s) RNE %s)", ebsb(t.Sort), t.Args[0].SMT())
	case OpFpFromBits:
		s = fmt.Sprintf("((_ to_fp %s) %s)", ebsb(t.Sort), t.Args[0].SMT())
	case OpFpToSBV:
		s = fmt.Sprintf("((_ fp.to_sbv %d) RTZ %s)", t.W, t.Args[0].SMT())
	case OpFpToUBV:
		s = fmt.Sprintf("((_ fp.to_ubv %d) RTZ %s)", t.W, t.Args[0].SMT())
	case OpFpTrunc:
		s = fmt.Sprintf("(fp.roundToIntegral RTZ %s)", t.Args[0].SMT())
	case OpFpFloor:
		s = fmt.Sprintf("(fp.roundToIntegral RTN %s)", t.Args[0].SMT())
	case OpFpCeil:
		s = fmt.Sprintf("(fp.roundToIntegral RTP %s)", t.Args[0].SMT())
	case OpFpRound:
		s = fmt.Sprintf("(fp.roundToIntegral RNA %s)", t.Args[0].SMT())
	default:
		n, ok := opNames[t.Op]
		if !ok {
			panic(fmt.Sprintf("SMT: op %d", t.Op))
		}
		var b strings.Builder
		b.WriteString("(")
		b.WriteString(n)
		for _, a := range t.Args {
			b.WriteString(" ")
			b.WriteString(a.SMT())
		}
		b.WriteString(")")
		s = b.String()
	}
	t.smt = s
	return s
}

func ebsb(s Sort) string {
	if s == SF32 {
		return "8 24"
	}
	return "11 53"
}

var _ = bits.Len
