// Intrinsics behind the harness support package (zz_verif): nondeterministic
// inputs, assumptions, assertions, deep equality, snapshots.

package interp

import (
	"fmt"
	"go/types"
	"sort"
)

const VerifPkg = "github.com/vedadiyan/genql/zz_verif"

func labelOf(v value) string {
	s, ok := v.(string)
	if !ok {
		panic(pathAbort{"engine", "verif: label must be a constant string"})
	}
	return s
}

type snapNode struct {
	kind  string // map | slice | scalar | nil | other
	obj   any    // identity (*omap or *value of first element)
	t     types.Type
	keys  []value
	elems []*snapNode
	val   value
	n     int
}

func init() {
	v := func(name string, f externalFn) { externals[VerifPkg+"."+name] = f }

	v("F64", func(fr *frame, args []value) value {
		ex := fr.i.ex
		b := ex.Fresh(labelOf(args[0]), "f", SBV, 64)
		ex.LogInput(InputRec{Kind: "f64", Label: labelOf(args[0]), Vars: []string{b.Name}})
		return SymFloat{FpFromBits(b, SF64), types.Float64}
	})
	v("Int", func(fr *frame, args []value) value {
		ex := fr.i.ex
		b := ex.Fresh(labelOf(args[0]), "i", SBV, 64)
		ex.LogInput(InputRec{Kind: "int", Label: labelOf(args[0]), Vars: []string{b.Name}})
		return SymInt{b, types.Int}
	})
	v("IntRange", func(fr *frame, args []value) value {
		ex := fr.i.ex
		lo, hi := fr.concreteInt(args[1], "lo"), fr.concreteInt(args[2], "hi")
		b := ex.Fresh(labelOf(args[0]), "i", SBV, 64)
		ex.LogInput(InputRec{Kind: "int", Label: labelOf(args[0]), Vars: []string{b.Name}})
		ex.Assume(And(BvSle(BvConst(uint64(lo), 64), b), BvSle(b, BvConst(uint64(hi), 64))))
		return SymInt{b, types.Int}
	})
	v("Bool", func(fr *frame, args []value) value {
		ex := fr.i.ex
		b := ex.Fresh(labelOf(args[0]), "b", SBool, 0)
		ex.LogInput(InputRec{Kind: "bool", Label: labelOf(args[0]), Vars: []string{b.Name}})
		return SymBool{b}
	})
	v("Byte", func(fr *frame, args []value) value {
		ex := fr.i.ex
		b := ex.Fresh(labelOf(args[0]), "c", SBV, 8)
		ex.LogInput(InputRec{Kind: "byte", Label: labelOf(args[0]), Vars: []string{b.Name}})
		return SymInt{b, types.Uint8}
	})
	v("Str", func(fr *frame, args []value) value {
		ex := fr.i.ex
		label := labelOf(args[0])
		maxLen := int(fr.concreteInt(args[1], "maxLen"))
		alpha := mustConcrete(args[2], "alphabet")
		n := ex.Choose(maxLen+1, DkStrLen, "")
		segs := make([]Seg, n)
		vars := make([]string, n)
		for k := 0; k < n; k++ {
			b := ex.Fresh(fmt.Sprintf("%s_%d", label, k), "c", SBV, 8)
			vars[k] = b.Name
			if alpha != "" {
				var cs []*Term
				for j := 0; j < len(alpha); j++ {
					cs = append(cs, Eq(b, BvConst(uint64(alpha[j]), 8)))
				}
				ex.Assume(Or(cs...))
			}
			segs[k] = Seg{K: SegByte, T: b}
		}
		ex.LogInput(InputRec{Kind: "str", Label: label, Vars: vars})
		return mkString(segs)
	})
	v("Choose", func(fr *frame, args []value) value {
		n := int(fr.concreteInt(args[1], "n"))
		return fr.i.ex.Choose(n, DkChoose, labelOf(args[0]))
	})
	v("Assume", func(fr *frame, args []value) value {
		fr.i.ex.Assume(boolTerm(args[0]))
		return nil
	})
	v("Assert", func(fr *frame, args []value) value {
		fr.i.ex.Assert(boolTerm(args[0]), labelOf(args[1]))
		return nil
	})
	v("Reach", func(fr *frame, args []value) value {
		fr.i.ex.reached[labelOf(args[0])] = true
		return nil
	})
	v("Note", func(fr *frame, args []value) value {
		return nil
	})
	v("Tier", func(fr *frame, args []value) value {
		return fr.i.m.Tier
	})
	v("Quote", func(fr *frame, args []value) value {
		return sqlQuote(mustConcrete(args[0], "Quote operand"))
	})
	v("All", func(fr *frame, args []value) value {
		var cs []*Term
		for _, c := range args[0].([]value) {
			cs = append(cs, boolTerm(c))
		}
		return mkScalar(And(cs...), types.Bool)
	})
	v("Any", func(fr *frame, args []value) value {
		var cs []*Term
		for _, c := range args[0].([]value) {
			cs = append(cs, boolTerm(c))
		}
		return mkScalar(Or(cs...), types.Bool)
	})
	v("Not", func(fr *frame, args []value) value {
		return mkScalar(Not(boolTerm(args[0])), types.Bool)
	})
	v("Implies", func(fr *frame, args []value) value {
		return mkScalar(Or(Not(boolTerm(args[0])), boolTerm(args[1])), types.Bool)
	})
	v("NotNegZero", func(fr *frame, args []value) value {
		a, _, _ := scalarTerm(args[0])
		return mkScalar(Not(Eq(a, F64Const(negZero()))), types.Bool)
	})
	v("IteF64", func(fr *frame, args []value) value {
		a, _, _ := scalarTerm(args[1])
		b, _, _ := scalarTerm(args[2])
		return mkScalar(Ite(boolTerm(args[0]), a, b), types.Float64)
	})
	v("Eq", func(fr *frame, args []value) value {
		return fr.deepEq(args[0], args[1], 0)
	})
	v("SameObj", func(fr *frame, args []value) value {
		return sameObj(args[0], args[1])
	})
	v("SQL", func(fr *frame, args []value) value {
		return fr.sqlTemplate(mustConcrete(args[0], "SQL template"), args[1].([]value))
	})
	v("Opt", func(fr *frame, args []value) value {
		name := labelOf(args[0])
		n := int(fr.concreteInt(args[1], "option value"))
		switch name {
		case "maporder":
			fr.i.mapOrder = n
		case "schedules":
			fr.i.sched.explore = n != 0
		case "race":
			fr.i.sched.race = n != 0
		case "preempt":
			fr.i.sched.maxPreempt = n
		case "recursion-is-violation":
			fr.i.depthIsViolation = n != 0
		default:
			panic(pathAbort{"engine", "verif.Opt: unknown option " + name})
		}
		return nil
	})
	v("Drain", func(fr *frame, args []value) value {
		fr.i.sched.drain()
		return nil
	})
	v("Live", func(fr *frame, args []value) value {
		return fr.i.sched.live() - 1
	})
	v("Snapshot", func(fr *frame, args []value) value {
		var s value = nativeObj{fr.snapshot(args[0], 0)}
		return &s
	})
	v("Unchanged", func(fr *frame, args []value) value {
		p := args[0].(*value)
		sn := (*p).(nativeObj).v.(*snapNode)
		onPath := map[any]bool{}
		return fr.unchanged(sn, args[1], onPath, 0)
	})
	v("Plain", func(fr *frame, args []value) value {
		return fr.plain(args[0], map[any]bool{}, 0, "$")
	})
	v("MySQLScan", func(fr *frame, args []value) value {
		run := func(sql string) value {
			class, typ, start, end, val := nativeMySQLScan(sql)
			ints := func(xs []int) value {
				out := make([]value, len(xs))
				for i, x := range xs {
					out[i] = x
				}
				return out
			}
			return tuple{ints(class), ints(typ), ints(start), ints(end), strSlice(val)}
		}
		if s, ok := args[0].(string); ok {
			return run(s)
		}
		return fr.concretiseStringCall(fr.i.ex.flatten(args[0]), run)
	})
	v("Concrete", func(fr *frame, args []value) value {
		// concretise an int (decision over feasible values)
		return int(fr.concreteInt(args[0], "verif.Concrete"))
	})
	v("IsSymbolic", func(fr *frame, args []value) value {
		it := args[0].(iface)
		return it.t != nil && isSym(it.v)
	})
}

func objID(v value) any {
	switch v := v.(type) {
	case *omap:
		if v == nil {
			return nil
		}
		return v
	case []value:
		if cap(v) == 0 {
			return nil
		}
		return &v[:1][0]
	case *value:
		if v == nil {
			return nil
		}
		return v
	}
	return nil
}

func sameObj(a, b value) value {
	ia, ib := a.(iface), b.(iface)
	if ia.t == nil || ib.t == nil {
		return ia.t == nil && ib.t == nil
	}
	x, y := objID(ia.v), objID(ib.v)
	if x == nil || y == nil {
		return false
	}
	if sx, ok := ia.v.([]value); ok {
		sy, ok := ib.v.([]value)
		return ok && x == y && len(sx) == len(sy)
	}
	return x == y
}

// deepEq compares two interface values structurally. Floats are equal when
// fp.eq holds or both are NaN; nil and empty slices are equal; dynamic
// types must be identical.
func (fr *frame) deepEq(a, b value, depth int) value {
	if depth > 30 {
		panic(pathAbort{"unsupported", "verif.Eq on a cyclic or very deep value"})
	}
	ia, ok1 := a.(iface)
	ib, ok2 := b.(iface)
	if !ok1 || !ok2 {
		panic(fmt.Sprintf("deepEq: non-interface %T %T", a, b))
	}
	if ia.t == nil || ib.t == nil {
		// a nil interface equals a nil/empty slice
		if ia.t == nil && ib.t == nil {
			return true
		}
		other := ia
		if ia.t == nil {
			other = ib
		}
		if s, ok := other.v.([]value); ok && len(s) == 0 {
			return true
		}
		return false
	}
	if !types.Identical(ia.t, ib.t) {
		return false
	}
	return fr.deepEqTyped(ia.t, ia.v, ib.v, depth)
}

func (fr *frame) deepEqTyped(t types.Type, x, y value, depth int) value {
	switch ut := t.Underlying().(type) {
	case *types.Basic:
		switch {
		case ut.Info()&types.IsFloat != 0:
			a, _, _ := scalarTerm(x)
			b, _, _ := scalarTerm(y)
			if SameTerm(a, b) {
				return true
			}
			return mkScalar(Or(FpEq(a, b), And(FpIsNaN(a), FpIsNaN(b))), types.Bool)
		case ut.Info()&types.IsString != 0:
			return fr.strOp(func(a, b value) value { return strEq(a, b) }, x, y)
		}
		return fr.equalsV(t, x, y)
	case *types.Map:
		mx, my := x.(*omap), y.(*omap)
		if mx.len() != my.len() {
			return false
		}
		acc := value(true)
		for i, k := range mx.keys {
			v2, ok := my.lookup(fr, k)
			if !ok {
				return false
			}
			acc = symAnd(acc, fr.deepEqElem(ut.Elem(), mx.vals[i], v2, depth+1))
			if b, ok := acc.(bool); ok && !b {
				return false
			}
		}
		return acc
	case *types.Slice:
		if _, ok := x.(ropeBytes); ok {
			return fr.strOp(func(a, b value) value { return strEq(a, b) }, bytesToString(x), bytesToString(y))
		}
		sx, sy := x.([]value), y.([]value)
		if len(sx) != len(sy) {
			return false
		}
		acc := value(true)
		for i := range sx {
			acc = symAnd(acc, fr.deepEqElem(ut.Elem(), sx[i], sy[i], depth+1))
			if b, ok := acc.(bool); ok && !b {
				return false
			}
		}
		return acc
	case *types.Struct:
		sx, sy := x.(structure), y.(structure)
		acc := value(true)
		for i := range sx {
			acc = symAnd(acc, fr.deepEqElem(ut.Field(i).Type(), sx[i], sy[i], depth+1))
		}
		return acc
	case *types.Pointer:
		return x.(*value) == y.(*value)
	case *types.Interface:
		return fr.deepEq(x, y, depth+1)
	case *types.Signature:
		return false
	}
	return fr.equalsV(t, x, y)
}

func (fr *frame) deepEqElem(t types.Type, x, y value, depth int) value {
	if _, ok := t.Underlying().(*types.Interface); ok {
		return fr.deepEq(x, y, depth)
	}
	return fr.deepEqTyped(t, x, y, depth)
}

// snapshot records the object graph reachable from an interface value.
func (fr *frame) snapshot(v value, depth int) *snapNode {
	if depth > 30 {
		panic(pathAbort{"unsupported", "verif.Snapshot of a cyclic or very deep value"})
	}
	it, ok := v.(iface)
	if !ok {
		panic(fmt.Sprintf("snapshot: non-interface %T", v))
	}
	if it.t == nil {
		return &snapNode{kind: "nil"}
	}
	switch x := it.v.(type) {
	case *omap:
		n := &snapNode{kind: "map", obj: objID(x), t: it.t}
		if x != nil {
			n.keys = append([]value(nil), x.keys...)
			for _, e := range x.vals {
				n.elems = append(n.elems, fr.snapshot(e, depth+1))
			}
		}
		return n
	case []value:
		n := &snapNode{kind: "slice", obj: objID(x), t: it.t, n: len(x)}
		for _, e := range x {
			n.elems = append(n.elems, fr.snapshot(e, depth+1))
		}
		return n
	}
	return &snapNode{kind: "scalar", t: it.t, val: it.v}
}

// unchanged checks that the live value still has the recorded shape,
// identities and cell values, and that it is acyclic.
func (fr *frame) unchanged(sn *snapNode, v value, onPath map[any]bool, depth int) value {
	if depth > 40 {
		return false
	}
	it := v.(iface)
	if sn.kind == "nil" {
		return it.t == nil
	}
	if it.t == nil || !types.Identical(it.t, sn.t) {
		return false
	}
	switch sn.kind {
	case "map":
		m, ok := it.v.(*omap)
		if !ok || objID(m) != sn.obj {
			return false
		}
		if m != nil {
			if onPath[m] {
				return false
			}
			onPath[m] = true
			defer delete(onPath, m)
		}
		if m.len() != len(sn.keys) {
			return false
		}
		acc := value(true)
		for i, k := range sn.keys {
			cur, ok := m.lookup(fr, k)
			if !ok {
				return false
			}
			acc = symAnd(acc, fr.unchanged(sn.elems[i], cur, onPath, depth+1))
			if b, ok := acc.(bool); ok && !b {
				return false
			}
		}
		return acc
	case "slice":
		s, ok := it.v.([]value)
		if !ok || len(s) != sn.n || objID(s) != sn.obj {
			return false
		}
		acc := value(true)
		for i := range s {
			acc = symAnd(acc, fr.unchanged(sn.elems[i], s[i], onPath, depth+1))
			if b, ok := acc.(bool); ok && !b {
				return false
			}
		}
		return acc
	}
	return fr.deepEqTyped(sn.t, sn.val, it.v, depth)
}

// plain returns "" if v consists only of JSON-representable values
// (map[string]any, []any, string, numbers, bool, nil), is acyclic and has
// no "<-" key; otherwise a description of the first offending node.
func (fr *frame) plain(v value, onPath map[any]bool, depth int, path string) value {
	if depth > 40 {
		return path + ": too deep (cycle?)"
	}
	it, ok := v.(iface)
	if !ok {
		return path + fmt.Sprintf(": non-interface %T", v)
	}
	if it.t == nil {
		return ""
	}
	switch t := types.Unalias(it.t).(type) {
	case *types.Basic:
		if t.Info()&(types.IsNumeric|types.IsString|types.IsBoolean) != 0 && t.Info()&types.IsComplex == 0 {
			return ""
		}
	case *types.Map:
		if kb, ok := t.Key().(*types.Basic); ok && kb.Kind() == types.String {
			if ei, ok := t.Elem().Underlying().(*types.Interface); ok && ei.NumMethods() == 0 {
				m := it.v.(*omap)
				if m == nil {
					return ""
				}
				if onPath[m] {
					return path + ": cycle"
				}
				onPath[m] = true
				defer delete(onPath, m)
				idx := make([]int, len(m.keys))
				for i := range idx {
					idx[i] = i
				}
				sort.SliceStable(idx, func(a, b int) bool {
					ka, _ := m.keys[idx[a]].(string)
					kb, _ := m.keys[idx[b]].(string)
					return ka < kb
				})
				for _, i := range idx {
					ks, isStr := m.keys[i].(string)
					if isStr && ks == "<-" {
						return path + `: "<-" navigation key`
					}
					if !isStr {
						ks = "?"
					}
					if r := fr.plain(m.vals[i], onPath, depth+1, path+"."+ks); r != "" {
						return r
					}
				}
				return ""
			}
		}
	case *types.Slice:
		if ei, ok := t.Elem().Underlying().(*types.Interface); ok && ei.NumMethods() == 0 {
			for i, e := range it.v.([]value) {
				if r := fr.plain(e, onPath, depth+1, fmt.Sprintf("%s[%d]", path, i)); r != "" {
					return r
				}
			}
			return ""
		}
	}
	return path + ": " + typeStr(it.t)
}
