package compare

import (
	"math"
	"strconv"

	verif "github.com/vedadiyan/genql/zz_verif"
)

var numKinds = []string{"int", "int8", "int16", "int32", "int64", "uint", "uint8", "uint16", "uint32", "uint64", "float32", "float64"}

// mkNum returns a symbolic value of numeric kind k (any bit pattern of that
// type within the exactly representable range) and its exact float64 value.
// exact64 reports whether the magnitude u converts to float64 exactly (at
// most 53 significant bits).
func exact64(u uint64) bool {
	for s := uint(0); s < 11; s++ {
		if u < 1<<(53+s) {
			return u&(1<<s-1) == 0
		}
	}
	return u&(1<<11-1) == 0
}

// exactInt is any int64 that float64 represents exactly (every magnitude up
// to 2^63, not only those below 2^53).
func exactInt(label string) int64 {
	x := int64(verif.Int(label))
	m := uint64(x)
	if x < 0 {
		m = uint64(-x)
	}
	verif.Assume(exact64(m))
	return x
}

func exactUint(label string) uint64 {
	x := uint64(verif.Int(label))
	verif.Assume(exact64(x))
	return x
}

func mkNum(k int, label string) (any, float64) {
	switch k {
	case 0:
		x := int(exactInt(label))
		return x, float64(x)
	case 1:
		x := int8(verif.Int(label))
		return x, float64(x)
	case 2:
		x := int16(verif.Int(label))
		return x, float64(x)
	case 3:
		x := int32(verif.Int(label))
		return x, float64(x)
	case 4:
		x := exactInt(label)
		return x, float64(x)
	case 5:
		x := uint(exactUint(label))
		return x, float64(x)
	case 6:
		x := uint8(verif.Int(label))
		return x, float64(x)
	case 7:
		x := uint16(verif.Int(label))
		return x, float64(x)
	case 8:
		x := uint32(verif.Int(label))
		return x, float64(x)
	case 9:
		x := exactUint(label)
		return x, float64(x)
	case 10:
		// any finite float32: a float64 that the conversion to float32 leaves unchanged
		w := verif.F64(label)
		x := float32(w)
		verif.Assume(verif.All(w == w, w > -3.5e38, w < 3.5e38, float64(x) == w))
		return x, w
	default:
		x := verif.F64(label)
		verif.Assume(verif.All(x == x, x > -math.MaxFloat64, x < math.MaxFloat64))
		return x, x
	}
}

func sign(a, b float64) int {
	if a < b {
		return -1
	}
	if a > b {
		return 1
	}
	return 0
}

// H_C15_numeric: for every pair of Go numeric types, Compare returns only
// -1/0/1, agrees with the mathematical order, and is antisymmetric and
// reflexive.
func H_C15_numeric() {
	ka := verif.Choose("left", len(numKinds))
	kb := verif.Choose("right", len(numKinds))
	a, fa := mkNum(ka, "a")
	b, fb := mkNum(kb, "b")
	r := Compare(a, b)
	verif.Assert(verif.Any(r == -1, r == 0, r == 1), "range")
	verif.Assert(r == sign(fa, fb), "mathematical-order")
	verif.Assert(Compare(b, a) == -r, "antisymmetric")
	verif.Assert(Compare(a, a) == 0, "reflexive")
	verif.Reach("end")
}

// H_C15_transitive: within one numeric kind, a<=b and b<=c imply a<=c.
func H_C15_transitive() {
	k := verif.Choose("kind", len(numKinds))
	a, _ := mkNum(k, "a")
	b, _ := mkNum(k, "b")
	c, _ := mkNum(k, "c")
	ab, bc, ac := Compare(a, b), Compare(b, c), Compare(a, c)
	verif.Assert(verif.Implies(verif.All(ab <= 0, bc <= 0), ac <= 0), "transitive")
	verif.Assert(verif.Implies(verif.All(ab == 0, bc == 0), ac == 0), "transitive-eq")
	verif.Reach("end")
}

// H_C15_strings: two strings compare byte-wise lexicographically.
func H_C15_strings() {
	n := 2 + verif.Tier()
	a, b, c := verif.Str("a", n, ""), verif.Str("b", n, ""), verif.Str("c", n, "")
	r := Compare(a, b)
	want := 0
	if a < b {
		want = -1
	} else if a > b {
		want = 1
	}
	verif.Assert(r == want, "byte-wise-order")
	verif.Assert(Compare(b, a) == -r, "antisymmetric")
	verif.Assert(Compare(a, a) == 0, "reflexive")
	if r <= 0 && Compare(b, c) <= 0 {
		verif.Assert(Compare(a, c) <= 0, "transitive")
	}
	verif.Reach("end")
}

// H_C15_num_str: a number against a string compares the number's decimal
// text with the string.
func H_C15_num_str() {
	x := verif.IntRange("x", -3, 12)
	half := verif.Choose("half", 2)
	f := float64(x)
	text := itoa(x)
	if half == 1 {
		f += 0.5
		if x >= 0 {
			text = itoa(x) + ".5"
		} else if x == -1 {
			text = "-0.5"
		} else {
			text = itoa(x+1) + ".5"
		}
	}
	s := verif.Str("s", 2, "0123456789.-a")
	r := Compare(f, s)
	want := 0
	if text < s {
		want = -1
	} else if text > s {
		want = 1
	}
	verif.Assert(r == want, "decimal-text-order")
	verif.Assert(Compare(s, f) == -r, "antisymmetric")
	verif.Reach("end")
}

func itoa(n int) string {
	if n == 0 {
		return "0"
	}
	neg := n < 0
	if neg {
		n = -n
	}
	s := ""
	for n > 0 {
		s = string(rune('0'+n%10)) + s
		n /= 10
	}
	if neg {
		s = "-" + s
	}
	return s
}

// quarterText is the %v text of k/4 (k in -12..40).
func quarterText(k int) string {
	neg := k < 0
	if neg {
		k = -k
	}
	s := itoa(k / 4)
	switch k % 4 {
	case 1:
		s += ".25"
	case 2:
		s += ".5"
	case 3:
		s += ".75"
	}
	if neg {
		s = "-" + s
	}
	return s
}

// tenthText is the %v text of k/10 (|k| < 100).
func tenthText(k int) string {
	neg := k < 0
	if neg {
		k = -k
	}
	s := itoa(k / 10)
	if k%10 != 0 {
		s += "." + itoa(k%10)
	}
	if neg {
		s = "-" + s
	}
	return s
}

// H_C15_kinds_str: numbers of every Go numeric kind against strings: the
// order of the number's decimal text against the string, in both
// directions.
// numOfKind returns a number of the chosen Go numeric kind with its %v text.
func numOfKind() (any, string) {
	kind := verif.Choose("kind", 15)
	k := verif.IntRange("k", -12, 11)
	if kind == 14 {
		// float64 values whose %v text switches to exponent form, and other long texts
		big := []float64{1e6, 2.5e6, -3e6, 1099511627776, 1e21, 123456789, 1e-7, 0.000123, 1e20, 21e20}
		txt := []string{"1e+06", "2.5e+06", "-3e+06", "1.099511627776e+12", "1e+21", "1.23456789e+08", "1e-07", "0.000123", "1e+20", "2.1e+21"}
		verif.Assume(k >= 0 && k < len(big))
		return big[k], txt[k]
	}
	if kind >= 7 {
		verif.Assume(k >= -3 && k <= 4) // the remaining integer kinds: a narrower value range
	}
	var num any
	var text string
	switch kind {
	case 0:
		num, text = float32(k)/4, quarterText(k)
	case 1:
		num, text = float64(k)/4, quarterText(k)
	case 2:
		num, text = int32(k), itoa(k)
	case 3:
		num, text = int64(k), itoa(k)
	case 4:
		verif.Assume(k >= 0)
		num, text = uint16(k), itoa(k)
	case 5:
		// not dyadic: the 32-bit value differs from the 64-bit one, the
		// shortest text that identifies it among float32s is still k/10
		num, text = float32(k)/10, tenthText(k)
	case 6:
		num, text = float64(k)/10, tenthText(k)
	case 7:
		num, text = k, itoa(k)
	case 8:
		num, text = int16(k), itoa(k)
	case 9:
		num, text = int8(k), itoa(k)
	case 10:
		verif.Assume(k >= 0)
		num, text = uint(k), itoa(k)
	case 11:
		verif.Assume(k >= 0)
		num, text = uint32(k), itoa(k)
	case 12:
		verif.Assume(k >= 0)
		num, text = uint64(k), itoa(k)
	case 13:
		verif.Assume(k >= 0)
		num, text = byte(k), itoa(k)
	}
	return num, text
}

func H_C15_kinds_str() {
	num, text := numOfKind()
	alphabet := "0125.-e"
	if verif.Tier() > 0 {
		alphabet = "0123456789.-e+"
	}
	s := verif.Str("s", 2, alphabet)
	r := Compare(num, s)
	want := 0
	if text < s {
		want = -1
	} else if text > s {
		want = 1
	}
	verif.Assert(r == want, "decimal-text-order")
	verif.Assert(Compare(s, num) == -r, "antisymmetric")
	verif.Reach("end")
}

// H_C15_kinds_other: every numeric kind against its own text, that text
// extended by a digit, and the remaining scalar kinds (booleans, NULL).
func H_C15_kinds_other() {
	num, text := numOfKind()
	verif.Assert(Compare(num, text) == 0 && Compare(text, num) == 0, "equal-to-own-text")
	verif.Assert(Compare(num, text+"0") == -1 && Compare(text+"0", num) == 1, "below-extended-text")
	for _, other := range []any{true, false, nil} {
		ro := Compare(num, other)
		verif.Assert((ro == -1 || ro == 0 || ro == 1) && Compare(other, num) == -ro, "other-kinds-antisymmetric")
	}
	verif.Reach("end")
}

// H_C15_history: the order of a number against a string depends on the two
// operands only, not on what was compared before: a float32 and the float64
// of the same mathematical value (different decimal texts when the value is
// not dyadic), an integer and the float of the same value, each against its
// own text and a string next to it, in either order, then once more.
func H_C15_history() {
	pair := verif.Choose("pair", 3)
	k := verif.Choose("k", 24) - 12
	order := verif.Choose("order", 2)
	var a, b any
	var ta, tb string
	switch pair {
	case 0:
		x := float32(k) / 10
		a, ta = x, tenthText(k)
		b, tb = float64(x), strconv.FormatFloat(float64(x), 'g', -1, 64)
	case 1:
		a, ta = k, itoa(k)
		b, tb = float64(k), itoa(k)
	case 2:
		x := float32(k) / 4
		a, ta = x, quarterText(k)
		b, tb = float64(x), quarterText(k)
	}
	if order == 1 {
		a, b, ta, tb = b, a, tb, ta
	}
	s := verif.Str("s", 1, "0125.-e")
	ref := func(t, s string) int {
		if t < s {
			return -1
		} else if t > s {
			return 1
		}
		return 0
	}
	verif.Assert(Compare(a, ta) == 0 && Compare(ta, a) == 0, "first-equal-to-own-text")
	verif.Assert(Compare(b, tb) == 0 && Compare(tb, b) == 0, "second-equal-to-own-text")
	verif.Assert(Compare(a, ta) == 0, "first-again")
	verif.Assert(Compare(a, s) == ref(ta, s) && Compare(s, a) == -ref(ta, s), "first-decimal-text-order")
	verif.Assert(Compare(b, s) == ref(tb, s) && Compare(s, b) == -ref(tb, s), "second-decimal-text-order")
	verif.Reach("end")
}
