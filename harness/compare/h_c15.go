package compare

import verif "github.com/vedadiyan/genql/zz_verif"

// H_C15_f64: Compare on two arbitrary non-NaN float64 values agrees with the
// mathematical order and is antisymmetric.
func H_C15_f64() {
	a, b := verif.F64("a"), verif.F64("b")
	verif.Assume(verif.All(a == a, b == b))
	r := Compare(a, b)
	verif.Assert(verif.Any(r == -1, r == 0, r == 1), "range")
	verif.Assert(verif.All(verif.Implies(a < b, r == -1), verif.Implies(a == b, r == 0), verif.Implies(a > b, r == 1)), "order")
	verif.Assert(Compare(b, a) == -r, "antisymmetric")
	verif.Assert(Compare(a, a) == 0, "reflexive")
	verif.Reach("end")
}
