package genql

import verif "github.com/vedadiyan/genql/zz_verif"

// H_C01_cmp_num: WHERE a <op> ? and ? <op> a over a numeric column, every
// comparison operator, any finite constant, any table of finite numbers.
func H_C01_cmp_num() {
	n := verif.Choose("rows", maxRows(3, 4)+1)
	op := verif.Choose("op", 6)
	flip := verif.Choose("flip", 2)
	doc, rows := numTable(n, "a")
	c := verif.F64("c")
	var sql string
	if flip == 0 {
		sql = verif.SQL("SELECT * FROM t WHERE a "+cmpOps[op]+" ?", c)
	} else {
		sql = verif.SQL("SELECT * FROM t WHERE ? "+cmpOps[op]+" a", c)
	}
	got, ok := runQuery(doc, sql)
	if !ok {
		return
	}
	var want []Map
	for _, r := range rows {
		a := f64of(r["a"])
		keep := refCmp(op, a, c)
		if flip == 1 {
			keep = refCmp(op, c, a)
		}
		if keep {
			want = append(want, r)
		}
	}
	sameRows(got, want, "filter")
	verif.Reach("end")
}

// H_C01_bool_num: boolean combinations of two comparison atoms.
func H_C01_bool_num() {
	n := verif.Choose("rows", maxRows(2, 3)+1)
	shape := verif.Choose("shape", 6)
	op1 := verif.Choose("op1", 6)
	op2 := verif.Choose("op2", 6)
	doc, rows := numTable(n, "a", "b")
	c1, c2 := verif.F64("c1"), verif.F64("c2")
	p1 := "a " + cmpOps[op1] + " ?"
	p2 := "b " + cmpOps[op2] + " ?"
	var w string
	switch shape {
	case 0:
		w = p1 + " AND " + p2
	case 1:
		w = p1 + " OR " + p2
	case 2:
		w = "NOT (" + p1 + ")"
	case 3:
		w = "NOT (" + p1 + " AND " + p2 + ")"
	case 4:
		w = "NOT (" + p1 + " OR " + p2 + ")"
	case 5:
		w = p1 + " AND (" + p2 + " OR NOT (" + p1 + "))"
	}
	var sql string
	switch shape {
	case 2:
		sql = verif.SQL("SELECT * FROM t WHERE "+w, c1)
	case 5:
		sql = verif.SQL("SELECT * FROM t WHERE "+w, c1, c2, c1)
	default:
		sql = verif.SQL("SELECT * FROM t WHERE "+w, c1, c2)
	}
	got, ok := runQuery(doc, sql)
	if !ok {
		return
	}
	var want []Map
	for _, r := range rows {
		x := refCmp(op1, f64of(r["a"]), c1)
		y := refCmp(op2, f64of(r["b"]), c2)
		var keep bool
		switch shape {
		case 0:
			keep = x && y
		case 1:
			keep = x || y
		case 2:
			keep = !x
		case 3:
			keep = !(x && y)
		case 4:
			keep = !(x || y)
		case 5:
			keep = x && (y || !x)
		}
		if keep {
			want = append(want, r)
		}
	}
	sameRows(got, want, "filter")
	verif.Reach("end")
}

// H_C01_in_num: [NOT] IN over a literal list of 1..3 numeric constants.
func H_C01_in_num() {
	n := verif.Choose("rows", maxRows(2, 3)+1)
	neg := verif.Choose("not", 2)
	k := verif.Choose("list", 3) + 1
	doc, rows := numTable(n, "a")
	cs := make([]float64, k)
	holes := make([]any, k)
	list := ""
	for i := range cs {
		cs[i] = verif.F64("c")
		holes[i] = cs[i]
		if i > 0 {
			list += ", "
		}
		list += "?"
	}
	kw := " IN "
	if neg == 1 {
		kw = " NOT IN "
	}
	got, ok := runQuery(doc, verif.SQL("SELECT * FROM t WHERE a"+kw+"("+list+")", holes...))
	if !ok {
		return
	}
	var want []Map
	for _, r := range rows {
		in := false
		for _, c := range cs {
			if f64of(r["a"]) == c {
				in = true
			}
		}
		if in != (neg == 1) {
			want = append(want, r)
		}
	}
	sameRows(got, want, "filter")
	verif.Reach("end")
}

// H_C01_between_num: inclusive [NOT] BETWEEN on numbers: agrees with
// `a >= lo AND a <= hi`.
func H_C01_between_num() {
	n := verif.Choose("rows", maxRows(2, 3)+1)
	neg := verif.Choose("not", 2)
	doc, rows := numTable(n, "a")
	lo, hi := verif.F64("lo"), verif.F64("hi")
	kw := " BETWEEN "
	if neg == 1 {
		kw = " NOT BETWEEN "
	}
	got, ok := runQuery(doc, verif.SQL("SELECT * FROM t WHERE a"+kw+"? AND ?", lo, hi))
	if !ok {
		return
	}
	var want []Map
	for _, r := range rows {
		a := f64of(r["a"])
		in := a >= lo && a <= hi
		if in != (neg == 1) {
			want = append(want, r)
		}
	}
	sameRows(got, want, "filter")
	// x BETWEEN lo AND hi agrees with x >= lo AND x <= hi
	kw2 := "a >= ? AND a <= ?"
	if neg == 1 {
		kw2 = "NOT (a >= ? AND a <= ?)"
	}
	got2, ok := runQuery(doc, verif.SQL("SELECT * FROM t WHERE "+kw2, lo, hi))
	if !ok {
		return
	}
	verif.Assert(verif.Eq(got, got2), "agrees-with-ge-and-le")
	verif.Reach("end")
}

// H_C01_between_str: BETWEEN on strings (byte-wise order, inclusive).
func H_C01_between_str() {
	n := verif.Choose("rows", maxRows(1, 2)+1)
	neg := verif.Choose("not", 2)
	doc, rows := strTable(n, 2, "ab", "a")
	lo, hi := verif.Str("lo", 2, "ab"), verif.Str("hi", 2, "ab")
	kw := " BETWEEN "
	if neg == 1 {
		kw = " NOT BETWEEN "
	}
	got, ok := runQuery(doc, verif.SQL("SELECT * FROM t WHERE a"+kw+"? AND ?", lo, hi))
	if !ok {
		return
	}
	var want []Map
	for _, r := range rows {
		a := strof(r["a"])
		in := a >= lo && a <= hi
		if in != (neg == 1) {
			want = append(want, r)
		}
	}
	sameRows(got, want, "filter")
	verif.Reach("end")
}

// H_C01_is: IS [NOT] NULL / TRUE / FALSE on a nullable boolean column.
func H_C01_is() {
	n := verif.Choose("rows", maxRows(2, 3)+1)
	form := verif.Choose("form", 6)
	forms := []string{"IS NULL", "IS NOT NULL", "IS TRUE", "IS NOT TRUE", "IS FALSE", "IS NOT FALSE"}
	rows := make([]Map, n)
	arr := make([]any, n)
	isNull := make([]bool, n)
	for i := range rows {
		r := Map{}
		if verif.Choose("null", 2) == 1 {
			r["a"] = nil
			isNull[i] = true
		} else {
			r["a"] = verif.Bool("a")
		}
		rows[i], arr[i] = r, r
	}
	anyNull := false
	for i := range rows {
		anyNull = anyNull || isNull[i]
	}
	var want []Map
	for i, r := range rows {
		var keep bool
		switch form {
		case 0:
			keep = isNull[i]
		case 1:
			keep = !isNull[i]
		case 2:
			keep = !isNull[i] && r["a"].(bool) // NULL IS TRUE is false
		case 5:
			keep = isNull[i] || r["a"].(bool) // NULL IS NOT FALSE is true
		case 4:
			keep = !isNull[i] && !r["a"].(bool)
		default:
			keep = isNull[i] || !r["a"].(bool)
		}
		if keep {
			want = append(want, r)
		}
	}
	if form >= 2 && anyNull {
		// truth tests of NULL have their own label
		got, err := runQueryQuiet(Map{"t": arr}, "SELECT * FROM t WHERE a "+forms[form])
		verif.Assert(err == nil && len(got) == len(want), "truth-test-of-null")
		verif.Reach("end")
		return
	}
	got, ok := runQuery(Map{"t": arr}, "SELECT * FROM t WHERE a "+forms[form])
	if !ok {
		return
	}
	sameRows(got, want, "filter")
	verif.Reach("end")
}

// H_C01_cmp_str: comparison operators on a string column against a string
// constant: byte-wise lexicographic order.
func H_C01_cmp_str() {
	n := verif.Choose("rows", maxRows(2, 3)+1)
	op := verif.Choose("op", 6)
	doc, rows := strTable(n, 2, "", "a")
	c := verif.Str("c", 2, "")
	got, ok := runQuery(doc, verif.SQL("SELECT * FROM t WHERE a "+cmpOps[op]+" ?", c))
	if !ok {
		return
	}
	var want []Map
	for _, r := range rows {
		if refCmpStr(op, strof(r["a"]), c) {
			want = append(want, r)
		}
	}
	sameRows(got, want, "filter")
	verif.Reach("end")
}

// H_C01_in_str: [NOT] IN over string constants.
func H_C01_in_str() {
	n := verif.Choose("rows", maxRows(2, 3)+1)
	neg := verif.Choose("not", 2)
	doc, rows := strTable(n, 2, "ab", "a")
	c1, c2 := verif.Str("c1", 2, "ab"), verif.Str("c2", 2, "ab")
	kw := " IN "
	if neg == 1 {
		kw = " NOT IN "
	}
	got, ok := runQuery(doc, verif.SQL("SELECT * FROM t WHERE a"+kw+"(?, ?)", c1, c2))
	if !ok {
		return
	}
	var want []Map
	for _, r := range rows {
		a := strof(r["a"])
		in := a == c1 || a == c2
		if in != (neg == 1) {
			want = append(want, r)
		}
	}
	sameRows(got, want, "filter")
	verif.Reach("end")
}

var likePatterns = []string{
	"a", "%", "_", "a%", "%a", "_a", "a_", "%a%", "a%b", "a_b", "__", "%_", "",
	".", "a.", ".%", "(", "(%", "[", "a+", "+", "*", "?", "a|b", "^a", "a$", "\\\\", "A", "Ab", "%B",
}

func lower(b byte) byte {
	if b >= 'A' && b <= 'Z' {
		return b + 32
	}
	return b
}

// likeMatch: only % and _ are wildcards, everything else is literal,
// ASCII case-insensitive.
func likeMatch(s string, i int, p string, j int) bool {
	if j == len(p) {
		return i == len(s)
	}
	switch p[j] {
	case '%':
		for k := i; k <= len(s); k++ {
			if likeMatch(s, k, p, j+1) {
				return true
			}
		}
		return false
	case '_':
		return i < len(s) && likeMatch(s, i+1, p, j+1)
	}
	return i < len(s) && lower(s[i]) == lower(p[j]) && likeMatch(s, i+1, p, j+1)
}

// H_C01_like: [NOT] LIKE with a pattern from the list and any subject over a
// small alphabet that contains the regexp metacharacters of the pattern.
func H_C01_like() {
	n := verif.Choose("rows", 2)
	neg := verif.Choose("not", 2)
	pi := verif.Choose("pattern", len(likePatterns))
	pat := likePatterns[pi]
	patText := pat
	if pat == "\\\\" {
		patText = "\\"
	}
	alpha := "abAB\n"
	for i := 0; i < len(patText); i++ {
		c := patText[i]
		if c != '%' && c != '_' && !(c >= 'a' && c <= 'z') && !(c >= 'A' && c <= 'Z') {
			alpha += string(c)
		}
	}
	doc, rows := strTable(n, 3, alpha, "a")
	kw := " LIKE "
	if neg == 1 {
		kw = " NOT LIKE "
	}
	got, ok := runQuery(doc, "SELECT * FROM t WHERE a"+kw+"'"+pat+"'")
	if !ok {
		return
	}
	var want []Map
	for _, r := range rows {
		if likeMatch(strof(r["a"]), 0, patText, 0) != (neg == 1) {
			want = append(want, r)
		}
	}
	sameRows(got, want, "filter")
	verif.Reach("end")
}

// H_C01_like_sym: LIKE with a *symbolic* pattern over the wildcard and
// metacharacter alphabet against a symbolic subject.
func H_C01_like_sym() {
	neg := verif.Choose("not", 2)
	pat := verif.Str("pattern", 3, "ab%_.")
	subj := verif.Str("subject", 2+verif.Tier(), "abA.")
	row := Map{"a": subj}
	kw := " LIKE "
	if neg == 1 {
		kw = " NOT LIKE "
	}
	got, ok := runQuery(Map{"t": []any{row}}, verif.SQL("SELECT * FROM t WHERE a"+kw+"?", pat))
	if !ok {
		return
	}
	var want []Map
	if likeMatch(subj, 0, pat, 0) != (neg == 1) {
		want = append(want, row)
	}
	sameRows(got, want, "filter")
	verif.Reach("end")
}

// H_C01_in_subquery: IN over a single-column subquery evaluated against the
// enclosing document.
func H_C01_in_subquery() {
	n := verif.Choose("rows", maxRows(2, 3)+1)
	m := verif.Choose("list", 3)
	neg := verif.Choose("not", 2)
	computed := verif.Choose("computed", 3) // the subquery column is c, the expression c + 1, or c filtered by the outer row
	doc, rows := numTable(n, "a")
	u := make([]any, m)
	cs := make([]float64, m)
	for i := range u {
		cs[i] = verif.F64("c")
		verif.Assume(cs[i] == cs[i])
		u[i] = Map{"c": cs[i]}
	}
	doc["u"] = u
	kw := " IN "
	if neg == 1 {
		kw = " NOT IN "
	}
	col := "c"
	if computed == 1 {
		col = "c + 1 AS d"
		for i := range cs {
			cs[i] = cs[i] + 1
		}
	}
	corr := ""
	if computed == 2 {
		corr = " WHERE c >= `<-a`" // correlated: the list differs from row to row
	}
	got, ok := runQuery(doc, "SELECT * FROM t WHERE a"+kw+"(SELECT "+col+" FROM `<-u`"+corr+")")
	if !ok {
		return
	}
	var want []Map
	for _, r := range rows {
		in := false
		for _, c := range cs {
			if f64of(r["a"]) == c && (computed != 2 || c >= f64of(r["a"])) {
				in = true
			}
		}
		if in != (neg == 1) {
			want = append(want, r)
		}
	}
	sameRows(got, want, "filter")
	verif.Reach("end")
}

// H_C01_negative: comparisons against negative constants (the parser turns
// -c into a unary minus) and against computed right-hand sides.
func H_C01_negative() {
	n := verif.Choose("rows", maxRows(2, 3)+1)
	op := verif.Choose("op", 6)
	form := verif.Choose("form", 3)
	doc, rows := numTable(n, "a", "b")
	c := verif.F64("c")
	var sql string
	switch form {
	case 0:
		sql = verif.SQL("SELECT * FROM t WHERE a "+cmpOps[op]+" -?", c)
	case 1:
		sql = verif.SQL("SELECT * FROM t WHERE a "+cmpOps[op]+" b + ?", c)
	case 2:
		sql = verif.SQL("SELECT * FROM t WHERE a - ? "+cmpOps[op]+" b", c)
	}
	got, ok := runQuery(doc, sql)
	if !ok {
		return
	}
	var want []Map
	for _, r := range rows {
		a, b := f64of(r["a"]), f64of(r["b"])
		var keep bool
		switch form {
		case 0:
			keep = refCmp(op, a, -1*c)
		case 1:
			keep = refCmp(op, a, b+c)
		case 2:
			keep = refCmp(op, a-c, b)
		}
		if keep {
			want = append(want, r)
		}
	}
	sameRows(got, want, "filter")
	verif.Reach("end")
}

// H_C01_tabletypes: the table may arrive as []any, []Map or
// []map[string]any, with rows of type Map or map[string]any: the filter
// result is the same.
func H_C01_tabletypes() {
	n := verif.Choose("rows", maxRows(2, 3)+1)
	kind := verif.Choose("table-type", 4)
	op := verif.Choose("op", len(cmpOps))
	c := verif.F64("c")
	rows := make([]Map, n)
	for i := range rows {
		x := verif.F64("a")
		verif.Assume(x == x)
		rows[i] = Map{"a": x, "id": float64(i)}
	}
	var table any
	switch kind {
	case 0:
		arr := make([]any, n)
		for i, r := range rows {
			arr[i] = r
		}
		table = arr
	case 1:
		table = append([]Map(nil), rows...)
	case 2:
		arr := make([]map[string]any, n)
		for i, r := range rows {
			arr[i] = map[string]any(r)
		}
		table = arr
	case 3:
		arr := make([]any, n)
		for i, r := range rows {
			arr[i] = map[string]any(r)
		}
		table = arr
	}
	got, ok := runQuery(Map{"t": table}, verif.SQL("SELECT * FROM t WHERE a "+cmpOps[op]+" ?", c))
	if !ok {
		return
	}
	var want []Map
	for _, r := range rows {
		if refCmp(op, f64of(r["a"]), c) {
			want = append(want, r)
		}
	}
	sameRows(got, want, "filter")
	// and the caller's table is left as it was
	switch t := table.(type) {
	case []Map:
		verif.Assert(len(t) == n, "table-length")
		for i := range t {
			verif.Assert(verif.Eq(t[i], Map{"a": rows[i]["a"], "id": float64(i)}), "table-rows")
		}
	}
	verif.Reach("end")
}

// H_C01_literals: constants in every decimal spelling compare by their
// decimal value under every comparison operator, IN and BETWEEN.
func H_C01_literals() {
	texts := []string{"010", "0100", "007", "1e1", "10.0", "10.", "0010.00", "1.0e+1", "100e-1"}
	li := verif.Choose("literal", len(texts))
	form := verif.Choose("form", 4)
	n := verif.Choose("rows", maxRows(2, 3)+1)
	vals := []float64{10, 100, 7, 10, 10, 10, 10, 10, 10}
	v := vals[li]
	doc, rows := numTable(n, "a")
	var sql string
	op := 0
	switch form {
	case 0:
		op = verif.Choose("op", len(cmpOps))
		sql = "SELECT * FROM t WHERE a " + cmpOps[op] + " " + texts[li]
	case 1:
		sql = "SELECT * FROM t WHERE a IN (" + texts[li] + ", 3)"
	case 2:
		sql = "SELECT * FROM t WHERE a NOT IN (3, " + texts[li] + ")"
	case 3:
		sql = "SELECT * FROM t WHERE a BETWEEN 3 AND " + texts[li]
	}
	got, ok := runQuery(doc, sql)
	if !ok {
		return
	}
	var want []Map
	for _, r := range rows {
		x := f64of(r["a"])
		var keep bool
		switch form {
		case 0:
			keep = refCmp(op, x, v)
		case 1:
			keep = x == v || x == 3
		case 2:
			keep = !(x == v || x == 3)
		case 3:
			keep = x >= 3 && x <= v
		}
		if keep {
			want = append(want, r)
		}
	}
	sameRows(got, want, "filter")
	verif.Reach("end")
}

// H_C01_literal_kinds: a numeric literal and a string literal spelled alike
// in one predicate keep their kinds: the number compares numerically, the
// string byte-wise with the column's text - in either order, on every row.
func H_C01_literal_kinds() {
	spell := []string{"1.50", "1.0", "007", "1e3", "10", "0.5"}
	vals := []float64{1.5, 1, 7, 1000, 10, 0.5}
	li := verif.Choose("spelling", len(spell))
	form := verif.Choose("form", 4)
	n := verif.Choose("rows", maxRows(2, 3)+1)
	lit, v := spell[li], vals[li]
	rows := make([]Map, n)
	arr := make([]any, n)
	for i := range rows {
		x := verif.F64("price")
		verif.Assume(x == x)
		sku := lit
		if verif.Choose("sku", 2) == 1 {
			sku = "other"
		}
		rows[i] = Map{"id": float64(i), "price": x, "sku": sku}
		arr[i] = rows[i]
	}
	var sql string
	switch form {
	case 0:
		sql = "SELECT * FROM t WHERE price >= " + lit + " AND sku = '" + lit + "'"
	case 1:
		sql = "SELECT * FROM t WHERE sku = '" + lit + "' AND price >= " + lit
	case 2:
		sql = "SELECT * FROM t WHERE NOT (sku != '" + lit + "' OR price < " + lit + ")"
	case 3:
		sql = "SELECT * FROM t WHERE sku IN ('" + lit + "') AND price BETWEEN " + lit + " AND 1e300"
	}
	got, ok := runQuery(Map{"t": arr}, sql)
	if !ok {
		return
	}
	var want []Map
	for _, r := range rows {
		x := f64of(r["price"])
		upper := form != 3 || x <= 1e300
		if r["sku"] == lit && x >= v && upper {
			want = append(want, r)
		}
	}
	sameRows(got, want, "filter")
	verif.Reach("end")
}
