package genql

import (
	"math"

	verif "github.com/vedadiyan/genql/zz_verif"
)

var arithOps = []string{"+", "-", "*", "/"}

func refArith(op int, x, y float64) float64 {
	switch op {
	case 0:
		return x + y
	case 1:
		return x - y
	case 2:
		return x * y
	default:
		return x / y
	}
}

// H_C02_arith: SELECT a <op> b AS v, a <op> ? AS w with + - * / on IEEE
// doubles: one output row per source row, exactly the keys v and w.
func H_C02_arith() {
	n := verif.Choose("rows", maxRows(2, 3)+1)
	op := verif.Choose("op", 4)
	doc, rows := numTable(n, "a", "b")
	c := verif.F64("c")
	o := arithOps[op]
	got, ok := runQuery(doc, verif.SQL("SELECT a "+o+" b AS v, ? "+o+" a AS w, a AS a FROM t", c))
	if !ok {
		return
	}
	var want []any
	for _, r := range rows {
		a, b := f64of(r["a"]), f64of(r["b"])
		want = append(want, Map{"v": refArith(op, a, b), "w": refArith(op, c, a), "a": a})
	}
	verif.Assert(verif.Eq(got, want), "projection")
	verif.Reach("end")
}

// H_C02_nested: parenthesised nesting and unary minus.
func H_C02_nested() {
	n := verif.Choose("rows", maxRows(1, 2)+1)
	op1 := verif.Choose("op1", 4)
	op2 := verif.Choose("op2", 4)
	doc, rows := numTable(n, "a", "b")
	c := verif.F64("c")
	got, ok := runQuery(doc, verif.SQL("SELECT (a "+arithOps[op1]+" b) "+arithOps[op2]+" ? AS v, -a AS m, -(a "+arithOps[op1]+" ?) AS k FROM t", c, c))
	if !ok {
		return
	}
	var want []any
	for _, r := range rows {
		a, b := f64of(r["a"]), f64of(r["b"])
		want = append(want, Map{"v": refArith(op2, refArith(op1, a, b), c), "m": -1 * a, "k": -1 * refArith(op1, a, c)})
	}
	verif.Assert(verif.Eq(got, want), "projection")
	verif.Reach("end")
}

var intOps = []string{"DIV", "&", "|", "^", "<<", ">>", "%"}

// H_C02_intops: DIV % & | ^ << >> (operands within ±2^62, divisor and modulus
// non-zero, shift count in 0..63).
func H_C02_intops() {
	op := verif.Choose("op", len(intOps))
	a, b := verif.F64("a"), verif.F64("b")
	lim := math.Ldexp(1, 62)
	verif.Assume(verif.All(a == a, b == b, a > -lim, a < lim, b > -lim, b < lim))
	switch op {
	case 0:
		verif.Assume(verif.Any(b >= 1, b <= -1))
	case 6:
		verif.Assume(b != 0)
	case 4, 5:
		// any non-negative count: counts of 64 and more shift everything out
		verif.Assume(b >= 0)
	}
	doc := Map{"t": []any{Map{"a": a, "b": b}}}
	got, ok := runQuery(doc, "SELECT a "+intOps[op]+" b AS v FROM t")
	if !ok {
		return
	}
	var want float64
	x, y := int64(a), int64(b)
	switch op {
	case 0:
		want = float64(x / y)
	case 1:
		want = float64(x & y)
	case 2:
		want = float64(x | y)
	case 3:
		want = float64(x ^ y)
	case 4:
		want = float64(x << y)
	case 5:
		want = float64(x >> y)
	case 6:
		want = math.Mod(a, b)
	}
	verif.Assert(verif.Eq(got, []any{Map{"v": want}}), "projection")
	verif.Reach("end")
}

// H_C02_unary: unary - ~ ! .
func H_C02_unary() {
	a := verif.F64("a")
	lim := math.Ldexp(1, 62)
	verif.Assume(verif.All(a == a, a > -lim, a < lim))
	p := verif.Bool("p")
	doc := Map{"t": []any{Map{"a": a, "p": p}}}
	got, ok := runQuery(doc, "SELECT -a AS m, ~a AS t, !p AS n FROM t")
	if !ok {
		return
	}
	verif.Assert(verif.Eq(got, []any{Map{"m": -1 * a, "t": float64(^int64(a)), "n": !p}}), "projection")
	verif.Reach("end")
}

// H_C02_case: CASE WHEN ... THEN ... [WHEN ...] ELSE ... END.
func H_C02_case() {
	n := verif.Choose("rows", maxRows(2, 3)+1)
	op := verif.Choose("op", 6)
	hasElse := verif.Choose("else", 2)
	doc, rows := numTable(n, "a", "b")
	c := verif.F64("c")
	els := " ELSE b"
	if hasElse == 0 {
		els = ""
	}
	got, ok := runQuery(doc, verif.SQL("SELECT CASE WHEN a "+cmpOps[op]+" ? THEN a WHEN a = b THEN 7"+els+" END AS v FROM t", c))
	if !ok {
		return
	}
	var want []any
	for _, r := range rows {
		a, b := f64of(r["a"]), f64of(r["b"])
		var v any
		switch {
		case refCmp(op, a, c):
			v = a
		case a == b:
			v = float64(7)
		case hasElse == 1:
			v = b
		}
		want = append(want, Map{"v": v})
	}
	verif.Assert(verif.Eq(got, want), "projection")
	verif.Reach("end")
}

// H_C02_keys: star, aliases, nested paths, missing keys, NULL operands and
// literals; the key set of each output row is exactly the select list.
func H_C02_keys() {
	n := verif.Choose("rows", maxRows(2, 3)+1)
	form := verif.Choose("form", 7)
	rows := make([]Map, n)
	arr := make([]any, n)
	for i := range rows {
		x, y := verif.F64("a"), verif.F64("k")
		verif.Assume(verif.All(x == x, y == y))
		rows[i] = Map{"a": x, "o": Map{"k": y}, "z": nil, "s": verif.Str("s", 2, "")}
		if form == 6 {
			// flat keys spelled like paths and selectors of the query
			rows[i]["o.k"] = float64(99)
			rows[i]["q.r"] = float64(77)
			rows[i]["a + 1"] = float64(55)
		}
		arr[i] = rows[i]
	}
	doc := Map{"t": arr}
	c := verif.F64("c")
	var sql string
	switch form {
	case 0:
		sql = "SELECT * FROM t"
	case 1:
		sql = "SELECT a, o.k AS ok, s FROM t"
	case 2:
		sql = verif.SQL("SELECT missing AS m, a + z AS nz, z + a AS zn, missing + ? AS mc FROM t", c)
	case 3:
		sql = verif.SQL("SELECT ? AS lit, 'x' AS str, a AS a2 FROM t WHERE a > ?", c, c)
	case 4:
		sql = "SELECT a AS x, a AS y, o.k FROM t"
	case 5:
		sql = verif.SQL("SELECT * FROM t WHERE a > ? OR a <= ?", c, c)
	case 6:
		// o.k descends into o; q.r has no object q: NULL; 'o.k' (quoted) is the flat key
		sql = "SELECT o.k AS v, q.r AS w, o.k + 1 AS p, `'o.k'` AS f, a + 1 AS e FROM t"
	}
	got, ok := runQuery(doc, sql)
	if !ok {
		return
	}
	var want []any
	for _, r := range rows {
		a := f64of(r["a"])
		k := r["o"].(Map)["k"]
		switch form {
		case 0, 5:
			want = append(want, Map{"a": r["a"], "o": r["o"], "z": nil, "s": r["s"]})
		case 1:
			want = append(want, Map{"a": a, "ok": k, "s": r["s"]})
		case 2:
			want = append(want, Map{"m": nil, "nz": nil, "zn": nil, "mc": nil})
		case 3:
			if a > c {
				want = append(want, Map{"lit": c, "str": "x", "a2": a})
			}
		case 4:
			want = append(want, Map{"x": a, "y": a, "k": k})
		case 6:
			want = append(want, Map{"v": k, "w": nil, "p": f64of(k) + 1, "f": float64(99), "e": a + 1})
		}
	}
	verif.Assert(verif.Eq(got, want), "projection")
	verif.Reach("end")
}

// H_C02_precedence: operator precedence and associativity as parsed.
func H_C02_precedence() {
	n := verif.Choose("rows", maxRows(1, 2)+1)
	form := verif.Choose("form", 4)
	doc, rows := numTable(n, "a", "b")
	c := verif.F64("c")
	var sql string
	switch form {
	case 0:
		sql = verif.SQL("SELECT a + b * ? AS v FROM t", c)
	case 1:
		sql = verif.SQL("SELECT a - b - ? AS v FROM t", c)
	case 2:
		sql = verif.SQL("SELECT a / b / ? AS v FROM t", c)
	case 3:
		sql = verif.SQL("SELECT -a * b + ? * (a - b) AS v FROM t", c)
	}
	got, ok := runQuery(doc, sql)
	if !ok {
		return
	}
	var want []any
	for _, r := range rows {
		a, b := f64of(r["a"]), f64of(r["b"])
		var v float64
		switch form {
		case 0:
			v = a + b*c
		case 1:
			v = (a - b) - c
		case 2:
			v = (a / b) / c
		case 3:
			v = (-1*a)*b + c*(a-b)
		}
		want = append(want, Map{"v": v})
	}
	verif.Assert(verif.Eq(got, want), "projection")
	verif.Reach("end")
}

// H_C02_null_binary: as above without the unary item, NULL rows included.
func H_C02_null_binary() {
	n := verif.Choose("rows", maxRows(2, 3)+1)
	op1 := verif.Choose("op1", 4)
	op2 := verif.Choose("op2", 4)
	rows := make([]Map, n)
	arr := make([]any, n)
	kind := make([]int, n)
	for i := range rows {
		a := verif.F64("a")
		verif.Assume(a == a)
		r := Map{"a": a}
		kind[i] = verif.Choose("b", 3)
		switch kind[i] {
		case 0:
			b := verif.F64("b")
			verif.Assume(b == b)
			r["b"] = b
		case 1:
			r["b"] = nil
		}
		rows[i], arr[i] = r, r
	}
	c := verif.F64("c")
	o1, o2 := arithOps[op1], arithOps[op2]
	got, ok := runQuery(Map{"t": arr}, verif.SQL("SELECT (a "+o1+" b) "+o2+" ? AS l, ? "+o2+" (b "+o1+" a) AS r, (a "+o1+" ?) "+o2+" (b "+o1+" a) AS d, a "+o2+" ? AS plain FROM t", c, c, c, c))
	if !ok {
		return
	}
	var want []any
	for i, r := range rows {
		a := f64of(r["a"])
		row := Map{"plain": refArith(op2, a, c), "l": nil, "r": nil, "d": nil}
		if kind[i] == 0 {
			b := f64of(r["b"])
			row["l"] = refArith(op2, refArith(op1, a, b), c)
			row["r"] = refArith(op2, c, refArith(op1, b, a))
			row["d"] = refArith(op2, refArith(op1, a, c), refArith(op1, b, a))
		}
		want = append(want, row)
	}
	verif.Assert(verif.Eq(got, want), "projection")
	verif.Reach("end")
}

// H_C02_literals: numeric literals in every decimal spelling (leading
// zeros, exponents, bare fraction, integers beyond int64) evaluate to their
// decimal value, alone and inside arithmetic.
func H_C02_literals() {
	texts := []string{"010", "0100", "007", "00", "1e3", "1E3", "0.50", ".5", "5.", "1.5e-1", "0e0", "9007199254740993", "18446744073709551616", "123456789012345678901234567890", "0.1", "100", "08", "019"}
	vals := []float64{10, 100, 7, 0, 1000, 1000, 0.5, 0.5, 5, 0.15, 0, 9007199254740992, 18446744073709551616, 123456789012345678901234567890, 0.1, 100, 8, 19}
	li := verif.Choose("literal", len(texts))
	neg := verif.Choose("negated", 2)
	a := verif.F64("a")
	verif.Assume(a == a)
	lit, v := texts[li], vals[li]
	if neg == 1 {
		lit, v = "-"+lit, -1*v
	}
	got, ok := runQuery(Map{"t": []any{Map{"a": a}}}, "SELECT "+lit+" AS k, a + "+lit+" AS s, a * "+lit+" AS p FROM t")
	if !ok {
		return
	}
	verif.Assert(verif.Eq(got, []any{Map{"k": v, "s": a + v, "p": a * v}}), "literal-value")
	verif.Reach("end")
}

var colCaseTemplates = []string{
	"SELECT {K}, {V} FROM t WHERE {V} > ?",
	"SELECT {K} AS x, {V} + 1 AS y FROM t",
	"SELECT {K}, COUNT(*) AS n, SUM({V}) AS s FROM t GROUP BY {K}",
	"SELECT {K}, SUM({V}) AS s FROM t GROUP BY {K} HAVING SUM({V}) > ?",
	"SELECT {K}, {V} FROM t ORDER BY {V} DESC",
	"SELECT DISTINCT {K} FROM t",
	"SELECT x.{K} AS l, y.{V} AS r FROM t x JOIN t y ON x.{K} = y.{K}",
	"SELECT x.{K} AS l, y.{V} AS r FROM t x LEFT JOIN t y ON x.{V} < y.{V}",
	"SELECT {K} FROM t WHERE {V} IN (SELECT {V} FROM `<-t` WHERE {K} > ?)",
	"SELECT {K}, CASE WHEN {V} > ? THEN {K} ELSE {V} END AS c FROM t",
	"SELECT MAX({V}) AS m, MIN({K}) AS n FROM t WHERE {V} BETWEEN ? AND 100",
	"SELECT * FROM t WHERE {K} IS NOT NULL AND NOT ({V} < ?)",
	"SELECT {K}, (SELECT COUNT(*) AS c FROM `<-t` WHERE {V} > ?) AS n FROM t",
	"SELECT {K} FROM `t{{K}, {V}}` WHERE {V} > ?",
	"WITH c AS (SELECT {K}, {V} FROM t WHERE {V} > ?) SELECT {K} FROM c ORDER BY {K}",
}

// H_C02_colcase: column names are the row keys, byte for byte: the same
// query over a table whose columns are spelled in mixed case (Cat, subTotal)
// or upper case returns what it returns over the lower-case spelling, with
// the output keys renamed accordingly - in every clause.
func H_C02_colcase() {
	ti := verif.Choose("template", len(colCaseTemplates))
	sp := verif.Choose("spelling", 3)
	n := verif.Choose("rows", 3) // 0..2 rows in both tiers (two evaluations with map-order decisions each)
	names := [][2]string{{"Cat", "subTotal"}, {"KEY1", "VAL"}, {"k_1", "V2x"}}[sp]
	fill := func(tpl, k, v string) string {
		out := ""
		for i := 0; i < len(tpl); i++ {
			if i+3 <= len(tpl) && tpl[i:i+3] == "{K}" {
				out += k
				i += 2
			} else if i+3 <= len(tpl) && tpl[i:i+3] == "{V}" {
				out += v
				i += 2
			} else {
				out += tpl[i : i+1]
			}
		}
		return out
	}
	verif.Opt("maporder", 1)
	ref := make([]any, n)
	mixed := make([]any, n)
	for i := range ref {
		k, v := verif.F64("k"), verif.F64("v")
		verif.Assume(verif.All(k == k, v == v, verif.NotNegZero(k), verif.NotNegZero(v)))
		ref[i] = Map{"k": k, "v": v}
		mixed[i] = Map{names[0]: k, names[1]: v}
	}
	c := verif.F64("c")
	var holes []any
	for i := 0; i < countHoles(colCaseTemplates[ti]); i++ {
		holes = append(holes, c)
	}
	want, werr := runQueryQuiet(Map{"t": ref}, verif.SQL(fill(colCaseTemplates[ti], "k", "v"), holes...))
	got, gerr := runQueryQuiet(Map{"t": mixed}, verif.SQL(fill(colCaseTemplates[ti], names[0], names[1]), holes...))
	verif.Assert((werr == nil) == (gerr == nil), "same-error-status")
	if werr != nil || gerr != nil {
		verif.Reach("end")
		return
	}
	// rename the output keys of the mixed-case run
	var renamed []any
	for _, g := range got {
		m, isMap := g.(Map)
		if !isMap {
			renamed = append(renamed, g)
			continue
		}
		r := Map{}
		for key, val := range m {
			switch key {
			case names[0]:
				r["k"] = val
			case names[1]:
				r["v"] = val
			default:
				r[key] = val
			}
		}
		renamed = append(renamed, r)
	}
	if ti == 6 || ti == 7 {
		verif.Assert(eqAnyOrder(renamed, want), "same-result-up-to-renaming")
	} else {
		verif.Assert(verif.Eq(renamed, want), "same-result-up-to-renaming")
	}
	verif.Reach("end")
}

// H_C02_case_guard: CASE evaluates only the branch it takes: the usual guard
// idiom (a failing ELSE / later WHEN behind a matching WHEN) yields the
// guarded value, not the failure.
func H_C02_case_guard() {
	form := verif.Choose("form", 3)
	k := verif.IntRange("b", -2, 3)
	a := verif.F64("a")
	lim := float64(1 << 40)
	verif.Assume(verif.All(a == a, a > -lim, a < lim))
	b := float64(k)
	doc := Map{"t": []any{Map{"a": a, "b": b, "s": "txt"}}}
	var sql string
	switch form {
	case 0:
		sql = "SELECT CASE WHEN b = 0 THEN -1 ELSE a DIV b END AS q FROM t"
	case 1:
		sql = "SELECT CASE WHEN b = 0 THEN -1 WHEN a DIV b >= 0 THEN 1 ELSE 0 END AS q FROM t"
	case 2:
		sql = "SELECT CASE WHEN b >= 0 THEN b ELSE -s END AS q FROM t"
	}
	got, err := runQueryQuiet(doc, sql)
	var want any
	wantErr := false
	switch form {
	case 0:
		if k == 0 {
			want = float64(-1)
		} else {
			want = float64(int64(a) / int64(b))
		}
	case 1:
		if k == 0 {
			want = float64(-1)
		} else if float64(int64(a)/int64(b)) >= 0 {
			want = float64(1)
		} else {
			want = float64(0)
		}
	case 2:
		if k >= 0 {
			want = b
		} else {
			wantErr = true // -s on a string: only when that branch is taken
		}
	}
	if wantErr {
		verif.Assert(err != nil, "taken-branch-fails")
	} else {
		verif.Assert(err == nil && verif.Eq(got, []any{Map{"q": want}}), "only-the-taken-branch-is-evaluated")
	}
	verif.Reach("end")
}
