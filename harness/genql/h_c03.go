package genql

import (
	verif "github.com/vedadiyan/genql/zz_verif"
)

type refGroup struct {
	key     []float64
	members []Map
}

// refGroupBy partitions rows by the key columns in order of first appearance.
func refGroupBy(rows []Map, keys ...string) []*refGroup {
	var out []*refGroup
	for _, r := range rows {
		var g *refGroup
		for _, c := range out {
			same := true
			for i, k := range keys {
				if c.key[i] != f64of(r[k]) {
					same = false
				}
			}
			if same {
				g = c
				break
			}
		}
		if g == nil {
			g = &refGroup{}
			for _, k := range keys {
				g.key = append(g.key, f64of(r[k]))
			}
			out = append(out, g)
		}
		g.members = append(g.members, r)
	}
	return out
}

func refSum(rows []Map, col string) any {
	sum := float64(0)
	all := true
	for _, r := range rows {
		if r[col] == nil {
			continue
		}
		sum += f64of(r[col])
		all = false
	}
	if all {
		return nil
	}
	return sum
}

func refMin(rows []Map, col string) any {
	var m any
	for _, r := range rows {
		if r[col] == nil {
			continue
		}
		if x := f64of(r[col]); m == nil || x < f64of(m) {
			m = x
		}
	}
	return m
}

func refMax(rows []Map, col string) any {
	var m any
	for _, r := range rows {
		if r[col] == nil {
			continue
		}
		if x := f64of(r[col]); m == nil || x > f64of(m) {
			m = x
		}
	}
	return m
}

func refAvg(rows []Map, col string) any {
	s := refSum(rows, col)
	if s == nil {
		return nil
	}
	return s.(float64) / float64(len(rows))
}

// eqAnyOrder: got equals want up to a permutation (sizes ≤ 4).
func eqAnyOrder(got []any, want []any) bool {
	if len(got) != len(want) {
		return false
	}
	if len(got) > 5 {
		// multiset equality by counting, as one formula (no n! disjunction and
		// no branching): every element occurs equally often on both sides
		var conds []bool
		count := func(e any, in []any) float64 {
			c := float64(0)
			for _, o := range in {
				c += verif.IteF64(verif.Eq(e, o), 1, 0)
			}
			return c
		}
		for _, g := range got {
			conds = append(conds, count(g, got) == count(g, want))
		}
		for _, w := range want {
			conds = append(conds, count(w, got) == count(w, want))
		}
		return verif.All(conds...)
	}
	var alts []bool
	var rec func(k int)
	perm := append([]any(nil), want...)
	rec = func(k int) {
		if k == len(perm) {
			alts = append(alts, verif.Eq(got, append([]any(nil), perm...)))
			return
		}
		for i := k; i < len(perm); i++ {
			perm[k], perm[i] = perm[i], perm[k]
			rec(k + 1)
			perm[k], perm[i] = perm[i], perm[k]
		}
	}
	rec(0)
	return verif.Any(alts...)
}

// H_C03_group1: one grouping column; COUNT(*), SUM, MIN, MAX, AVG per group;
// optional WHERE and HAVING; groups in order of first appearance.
func H_C03_group1() {
	n := verif.Choose("rows", maxRows(3, 4)+1)
	form := verif.Choose("form", 6)
	verif.Opt("maporder", 3)
	// column names are case-sensitive keys of the rows: lower-case and mixed-case spellings
	kc, vc := "k", "v"
	if verif.Choose("column-names", 2) == 1 {
		kc, vc = "Cat", "subTotal"
	}
	doc, rows := numTable(n, kc, vc)
	c := verif.F64("c")
	var sql string
	switch form {
	case 5:
		// aggregates whose argument is the grouping column itself
		sql = "SELECT " + kc + ", SUM(" + kc + ") AS s, COUNT(" + kc + ") AS c, MAX(" + kc + ") AS mx FROM t GROUP BY " + kc + " HAVING COUNT(" + kc + ") > 0"
	case 3:
		// the member rows of each group, in source order
		sql = "SELECT " + kc + ", * FROM t GROUP BY " + kc
	case 4:
		// HAVING on an aggregate that is not in the select list
		sql = verif.SQL("SELECT "+kc+", COUNT(*) AS c FROM t GROUP BY "+kc+" HAVING MAX("+vc+") > ?", c)
	case 0:
		sql = "SELECT " + kc + ", COUNT(*) AS c, SUM(" + vc + ") AS s, MIN(" + vc + ") AS mn, MAX(" + vc + ") AS mx, AVG(" + vc + ") AS av FROM t GROUP BY " + kc
	case 1:
		sql = verif.SQL("SELECT "+kc+", COUNT(*) AS c, SUM("+vc+") AS s FROM t WHERE "+vc+" > ? GROUP BY "+kc, c)
	case 2:
		sql = "SELECT " + kc + ", COUNT(*) AS c, SUM(" + vc + ") AS s FROM t GROUP BY " + kc + " HAVING COUNT(*) > 1"
	}
	got, ok := runQuery(doc, sql)
	if !ok {
		return
	}
	var kept []Map
	for _, r := range rows {
		if form != 1 || f64of(r[vc]) > c {
			kept = append(kept, r)
		}
	}
	var want []any
	total := 0
	for _, g := range refGroupBy(kept, kc) {
		total += len(g.members)
		if form == 2 && !(len(g.members) > 1) {
			continue
		}
		if form == 4 && !(f64of(refMax(g.members, vc)) > c) {
			continue
		}
		if form == 3 {
			var members []any
			for _, m := range g.members {
				members = append(members, Map{kc: m[kc], vc: m[vc]})
			}
			want = append(want, Map{kc: g.key[0], "*": members})
			continue
		}
		if form == 4 {
			want = append(want, Map{kc: g.key[0], "c": len(g.members)})
			continue
		}
		if form == 5 {
			want = append(want, Map{kc: g.key[0], "s": refSum(g.members, kc), "c": len(g.members), "mx": g.key[0]})
			continue
		}
		row := Map{kc: g.key[0], "c": len(g.members), "s": refSum(g.members, vc)}
		if form == 0 {
			row["mn"], row["mx"], row["av"] = refMin(g.members, vc), refMax(g.members, vc), refAvg(g.members, vc)
		}
		want = append(want, row)
	}
	verif.Assert(total == len(kept), "conservation")
	verif.Assert(eqAnyOrder(got, want), "groups")
	verif.Assert(verif.Eq(got, want), "group-order")
	verif.Reach("end")
}

// H_C03_group2: two grouping columns and access to the member rows.
func H_C03_group2() {
	n := verif.Choose("rows", maxRows(2, 3)+1)
	verif.Opt("maporder", 3)
	doc, rows := numTable(n, "k", "j", "v")
	got, ok := runQuery(doc, "SELECT k, j, COUNT(*) AS c, SUM(v) AS s FROM t GROUP BY k, j")
	if !ok {
		return
	}
	var want []any
	for _, g := range refGroupBy(rows, "k", "j") {
		want = append(want, Map{"k": g.key[0], "j": g.key[1], "c": len(g.members), "s": refSum(g.members, "v")})
	}
	verif.Assert(eqAnyOrder(got, want), "groups")
	verif.Assert(verif.Eq(got, want), "group-order")
	verif.Reach("end")
}

// H_C03_whole: a select list made only of aggregates yields one row over
// the rows that passed WHERE.
func H_C03_whole() {
	n := verif.Choose("rows", maxRows(3, 4)+1)
	where := verif.Choose("where", 2)
	doc, rows := numTable(n, "a")
	c := verif.F64("c")
	sql := "SELECT COUNT(*) AS c, SUM(a) AS s, MIN(a) AS mn, MAX(a) AS mx, AVG(a) AS av FROM t"
	if where == 1 {
		sql = verif.SQL(sql+" WHERE a > ?", c)
	}
	got, ok := runQuery(doc, sql)
	if !ok {
		return
	}
	var kept []Map
	for _, r := range rows {
		if where == 0 || f64of(r["a"]) > c {
			kept = append(kept, r)
		}
	}
	want := []any{Map{"c": len(kept), "s": refSum(kept, "a"), "mn": refMin(kept, "a"), "mx": refMax(kept, "a"), "av": refAvg(kept, "a")}}
	verif.Assert(verif.Eq(got, want), "whole-table")
	verif.Reach("end")
}

// H_C03_same_fn: the same aggregate function on different columns.
func H_C03_same_fn() {
	n := verif.Choose("rows", maxRows(2, 3)+1)
	grouped := verif.Choose("grouped", 2)
	verif.Opt("maporder", 3)
	doc, rows := numTable(n, "k", "a", "b")
	if grouped == 1 {
		got, ok := runQuery(doc, "SELECT k, SUM(a) AS sa, SUM(b) AS sb, MAX(a) AS ma, MAX(b) AS mb FROM t GROUP BY k")
		if !ok {
			return
		}
		var want []any
		for _, g := range refGroupBy(rows, "k") {
			want = append(want, Map{"k": g.key[0], "sa": refSum(g.members, "a"), "sb": refSum(g.members, "b"), "ma": refMax(g.members, "a"), "mb": refMax(g.members, "b")})
		}
		verif.Assert(eqAnyOrder(got, want), "own-argument")
		verif.Reach("end")
		return
	}
	got, ok := runQuery(doc, "SELECT SUM(a) AS sa, SUM(b) AS sb, MAX(a) AS ma, MAX(b) AS mb FROM t")
	if !ok {
		return
	}
	want := []any{Map{"sa": refSum(rows, "a"), "sb": refSum(rows, "b"), "ma": refMax(rows, "a"), "mb": refMax(rows, "b")}}
	verif.Assert(verif.Eq(got, want), "own-argument")
	verif.Reach("end")
}

// H_C03_nulls: SUM/MIN/MAX ignore NULL members; NULL group keys form a group.
func H_C03_nulls() {
	n := verif.Choose("rows", maxRows(2, 3)+1)
	verif.Opt("maporder", 3)
	rows := make([]Map, n)
	arr := make([]any, n)
	for i := range rows {
		r := Map{}
		k := verif.F64("k")
		verif.Assume(k == k)
		r["k"] = k
		if verif.Choose("vnull", 2) == 1 {
			r["v"] = nil
		} else {
			v := verif.F64("v")
			verif.Assume(v == v)
			r["v"] = v
		}
		rows[i], arr[i] = r, r
	}
	got, ok := runQuery(Map{"t": arr}, "SELECT k, COUNT(*) AS c, SUM(v) AS s, MIN(v) AS mn, MAX(v) AS mx FROM t GROUP BY k")
	if !ok {
		return
	}
	var want []any
	for _, g := range refGroupBy(rows, "k") {
		want = append(want, Map{"k": g.key[0], "c": len(g.members), "s": refSum(g.members, "v"), "mn": refMin(g.members, "v"), "mx": refMax(g.members, "v")})
	}
	verif.Assert(eqAnyOrder(got, want), "groups")
	verif.Reach("end")
}

// H_C03_having: HAVING on SUM / MIN / COUNT(col) together with WHERE, and
// ORDER BY over the grouped output.
func H_C03_having() {
	n := verif.Choose("rows", maxRows(3, 4)+1)
	form := verif.Choose("form", 3)
	verif.Opt("maporder", 3)
	doc, rows := numTable(n, "k", "v")
	c, d := verif.F64("c"), verif.F64("d")
	var sql string
	switch form {
	case 0:
		sql = verif.SQL("SELECT k, SUM(v) AS s FROM t WHERE v > ? GROUP BY k HAVING SUM(v) > ?", c, d)
	case 1:
		sql = verif.SQL("SELECT k, MIN(v) AS m, COUNT(v) AS c FROM t GROUP BY k HAVING MIN(v) <= ?", d)
	case 2:
		sql = verif.SQL("SELECT k, COUNT(*) AS c FROM t WHERE v > ? GROUP BY k ORDER BY k DESC", c)
	}
	got, ok := runQuery(doc, sql)
	if !ok {
		return
	}
	var kept []Map
	for _, r := range rows {
		if form == 1 || f64of(r["v"]) > c {
			kept = append(kept, r)
		}
	}
	var want []any
	for _, g := range refGroupBy(kept, "k") {
		switch form {
		case 0:
			s := refSum(g.members, "v").(float64)
			if s > d {
				want = append(want, Map{"k": g.key[0], "s": s})
			}
		case 1:
			m := refMin(g.members, "v").(float64)
			if m <= d {
				want = append(want, Map{"k": g.key[0], "m": m, "c": len(g.members)})
			}
		case 2:
			want = append(want, Map{"k": g.key[0], "c": len(g.members)})
		}
	}
	if form == 2 {
		// descending by k (keys are distinct by construction)
		for i := 1; i < len(want); i++ {
			for j := i; j > 0 && f64of(want[j].(Map)["k"]) > f64of(want[j-1].(Map)["k"]); j-- {
				want[j], want[j-1] = want[j-1], want[j]
			}
		}
	}
	verif.Assert(verif.Eq(got, want), "groups")
	verif.Reach("end")
}

// H_C03_qualified: whole-table aggregates over a join read the column of the
// side they name, even when both sides use the same column name.
func H_C03_qualified() {
	nl := verif.Choose("left", 3)
	nr := verif.Choose("right", 3)
	mk := func(n int) ([]Map, []any) {
		rows := make([]Map, n)
		arr := make([]any, n)
		for i := range rows {
			v := verif.F64("v")
			verif.Assume(v == v)
			rows[i] = Map{"k": float64(1), "v": v}
			arr[i] = rows[i]
		}
		return rows, arr
	}
	lrows, larr := mk(nl)
	rrows, rarr := mk(nr)
	got, ok := runQuery(Map{"l": larr, "r": rarr}, "SELECT SUM(x.v) AS a, SUM(y.v) AS b, MAX(x.v) AS c, MAX(y.v) AS d, COUNT(*) AS n FROM l x JOIN r y ON x.k = y.k")
	if !ok {
		return
	}
	// every left row pairs with every right row (all keys equal)
	var lv, rv []Map
	for _, l := range lrows {
		for _, r := range rrows {
			lv = append(lv, l)
			rv = append(rv, r)
		}
	}
	want := []any{Map{"a": refSum(lv, "v"), "b": refSum(rv, "v"), "c": refMax(lv, "v"), "d": refMax(rv, "v"), "n": len(lv)}}
	verif.Assert(verif.Eq(got, want), "own-argument")
	verif.Reach("end")
}

// H_C03_nullkeys: NULL and missing grouping cells form one group of their
// own (in one- and two-column keys); they never join another key's group.
func H_C03_nullkeys() {
	n := verif.Choose("rows", maxRows(2, 3)+1)
	two := verif.Choose("columns", 2)
	verif.Opt("maporder", 3)
	rows := make([]Map, n)
	arr := make([]any, n)
	cell := func(r Map, col string) {
		kinds := 3
		if col == "j" {
			kinds = 2 // the second column: a number or NULL
		}
		switch verif.Choose(col+"null", kinds) {
		case 0:
			x := verif.F64(col)
			verif.Assume(x == x)
			r[col] = x
		case 1:
			r[col] = nil
		}
	}
	for i := range rows {
		r := Map{"v": float64(i + 1)}
		cell(r, "k")
		if two == 1 {
			cell(r, "j")
		}
		rows[i], arr[i] = r, r
	}
	sql := "SELECT k, COUNT(*) AS c, SUM(v) AS s FROM t GROUP BY k"
	if two == 1 {
		sql = "SELECT k, j, COUNT(*) AS c, SUM(v) AS s FROM t GROUP BY k, j"
	}
	got, ok := runQuery(Map{"t": arr}, sql)
	if !ok {
		return
	}
	same := func(a, b any) bool {
		if a == nil || b == nil {
			return a == nil && b == nil
		}
		return f64of(a) == f64of(b)
	}
	type grp struct {
		k, j any
		c    int
		s    float64
	}
	var groups []*grp
	for _, r := range rows {
		var g *grp
		for _, c := range groups {
			if same(c.k, r["k"]) && (two == 0 || same(c.j, r["j"])) {
				g = c
				break
			}
		}
		if g == nil {
			g = &grp{k: r["k"], j: r["j"]}
			groups = append(groups, g)
		}
		g.c++
		g.s += f64of(r["v"])
	}
	var want []any
	for _, g := range groups {
		m := Map{"k": g.k, "c": g.c, "s": g.s}
		if two == 1 {
			m["j"] = g.j
		}
		want = append(want, m)
	}
	verif.Assert(eqAnyOrder(got, want), "groups")
	verif.Reach("end")
}

// H_C03_group_limit: a window on a grouped query cuts the sequence of
// groups; every returned group still covers all of its members, wherever
// they stand in the table.
func H_C03_group_limit() {
	n := 3 + verif.Choose("rows", 3)
	lim, off := verif.IntRange("limit", 0, 3), verif.IntRange("offset", 0, 2)
	verif.Opt("maporder", 1)
	rows := make([]Map, n)
	arr := make([]any, n)
	for i := range rows {
		k := float64(verif.Choose("k", 3))
		v := verif.F64("v")
		verif.Assume(v == v)
		rows[i] = Map{"k": k, "v": v}
		arr[i] = rows[i]
	}
	got, ok := runQuery(Map{"t": arr}, verif.SQL("SELECT k, COUNT(*) AS c, SUM(v) AS s FROM t GROUP BY k LIMIT ? OFFSET ?", lim, off))
	if !ok {
		return
	}
	var want []any
	for i, g := range refGroupBy(rows, "k") {
		if i >= off && i-off < lim {
			s := refSum(g.members, "v")
			x := f64of(s)
			verif.Assume(x == x)
			want = append(want, Map{"k": g.key[0], "c": len(g.members), "s": s})
		}
	}
	verif.Assert(verif.Eq(got, want), "window-over-complete-groups")
	verif.Reach("end")
}

// H_C03_mixedkeys: grouping cells of different kinds whose texts coincide
// (1 and '1', TRUE and 'true', NULL and '<nil>') are different keys: every
// group holds exactly the rows whose cell is the same value of the same kind.
func H_C03_mixedkeys() {
	n := verif.Choose("rows", maxRows(3, 4)+1)
	verif.Opt("maporder", 3)
	cells := []any{float64(1), "1", true, "true", nil, "<nil>", float64(2), "1.0"}
	rows := make([]Map, n)
	arr := make([]any, n)
	for i := range rows {
		rows[i] = Map{"k": cells[verif.Choose("cell", len(cells))], "v": float64(i + 1)}
		arr[i] = rows[i]
	}
	got, ok := runQuery(Map{"t": arr}, "SELECT k, COUNT(*) AS c, SUM(v) AS s, MIN(v) AS lo FROM t GROUP BY k")
	if !ok {
		return
	}
	type grp struct {
		k  any
		c  int
		s  float64
		lo float64
	}
	var groups []*grp
	for _, r := range rows {
		var g *grp
		for _, c := range groups {
			if c.k == r["k"] {
				g = c
				break
			}
		}
		if g == nil {
			g = &grp{k: r["k"], lo: f64of(r["v"])}
			groups = append(groups, g)
		}
		g.c++
		g.s += f64of(r["v"])
	}
	var want []any
	for _, g := range groups {
		want = append(want, Map{"k": g.k, "c": g.c, "s": g.s, "lo": g.lo})
	}
	verif.Assert(eqAnyOrder(got, want), "groups-by-value-and-kind")
	verif.Reach("end")
}
