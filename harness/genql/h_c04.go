package genql

import verif "github.com/vedadiyan/genql/zz_verif"

var joinTypes = []string{"JOIN", "LEFT JOIN", "RIGHT JOIN"}

// join strategies: 0 plain, 1 HASH_JOIN, 2 STRAIGHT_JOIN (inner only)
func joinKeyword(jt, strat int, parallel bool) string {
	var kw string
	switch strat {
	case 0:
		kw = joinTypes[jt]
	case 1:
		kw = []string{"HASH_JOIN", "LEFT HASH_JOIN", "RIGHT HASH_JOIN"}[jt]
	case 2:
		kw = "STRAIGHT_JOIN"
	}
	if parallel {
		kw = "PARALLEL " + kw
	}
	return kw
}

var joinConds = []string{
	"x.a = y.b",
	"y.b = x.a",
	"x.a = y.m AND x.z = y.b",
	"x.z = y.b AND x.a = y.m",
	"x.a < y.b",
	"x.a != y.b",
	"x.a = y.b OR x.c = y.d",
	"x.a = y.b AND x.c < y.d",
	"x.a >= y.b",
}

func joinCondHolds(cond int, l, r Map, str bool) bool {
	eq := func(u, v any) bool {
		if str {
			return strof(u) == strof(v)
		}
		return f64of(u) == f64of(v)
	}
	lt := func(u, v any) bool {
		if str {
			return strof(u) < strof(v)
		}
		return f64of(u) < f64of(v)
	}
	switch cond {
	case 0, 1:
		return eq(l["a"], r["b"])
	case 2, 3:
		return eq(l["a"], r["m"]) && eq(l["z"], r["b"])
	case 4:
		return lt(l["a"], r["b"])
	case 5:
		return !eq(l["a"], r["b"])
	case 6:
		return eq(l["a"], r["b"]) || eq(l["c"], r["d"])
	case 7:
		return eq(l["a"], r["b"]) && lt(l["c"], r["d"])
	default:
		return !lt(l["a"], r["b"])
	}
}

var joinCols = [][2][]string{
	{{"a"}, {"b"}}, {{"a"}, {"b"}}, {{"a", "z"}, {"b", "m"}}, {{"a", "z"}, {"b", "m"}},
	{{"a"}, {"b"}}, {{"a"}, {"b"}}, {{"a", "c"}, {"b", "d"}}, {{"a", "c"}, {"b", "d"}}, {{"a"}, {"b"}},
}

func joinSide(n int, cols []string, str bool) ([]Map, []any) {
	rows := make([]Map, n)
	arr := make([]any, n)
	for i := range rows {
		r := Map{}
		for _, c := range cols {
			if str {
				r[c] = verif.Str(c, 1, "ab")
			} else {
				x := verif.F64(c)
				// NaN and the negative zero are outside: their key text differs
				// from their numeric identity (see H_C04_negzero)
				verif.Assume(verif.All(x == x, verif.NotNegZero(x)))
				r[c] = x
			}
		}
		rows[i], arr[i] = r, r
	}
	return rows, arr
}

// joinPairs maps every result row back to (left index, right index | -1)
// by object identity; ok=false if a row is not of the form {x: l, y: r}.
func joinPairs(got []any, lrows, rrows []Map) (pairs [][2]int, ok bool) {
	for _, g := range got {
		m, isMap := g.(Map)
		if !isMap || len(m) != 2 {
			return nil, false
		}
		li, ri := -2, -2
		if m["x"] == nil {
			li = -1
		}
		if m["y"] == nil {
			ri = -1
		}
		for i, l := range lrows {
			if verif.SameObj(m["x"], l) {
				li = i
			}
		}
		for i, r := range rrows {
			if verif.SameObj(m["y"], r) {
				ri = i
			}
		}
		if _, has := m["x"]; !has {
			return nil, false
		}
		if _, has := m["y"]; !has {
			return nil, false
		}
		if li == -2 || ri == -2 {
			return nil, false
		}
		pairs = append(pairs, [2]int{li, ri})
	}
	return pairs, true
}

func sameMultiset(a, b [][2]int) bool {
	if len(a) != len(b) {
		return false
	}
	used := make([]bool, len(b))
	for _, p := range a {
		found := false
		for j, q := range b {
			if !used[j] && p == q {
				used[j], found = true, true
				break
			}
		}
		if !found {
			return false
		}
	}
	return true
}

func refJoin(jt, cond int, lrows, rrows []Map, str bool) [][2]int {
	var want [][2]int
	lm := make([]bool, len(lrows))
	rm := make([]bool, len(rrows))
	for i, l := range lrows {
		for j, r := range rrows {
			if joinCondHolds(cond, l, r, str) {
				want = append(want, [2]int{i, j})
				lm[i], rm[j] = true, true
			}
		}
	}
	if jt == 1 {
		for i := range lrows {
			if !lm[i] {
				want = append(want, [2]int{i, -1})
			}
		}
	}
	if jt == 2 {
		for j := range rrows {
			if !rm[j] {
				want = append(want, [2]int{-1, j})
			}
		}
	}
	return want
}

func joinHarness(parallel bool) {
	jt := verif.Choose("type", 3)
	strat := verif.Choose("strategy", 3)
	cond := verif.Choose("cond", len(joinConds))
	str := verif.Choose("strkeys", 2) == 1
	nl := verif.Choose("left", maxRows(2, 3)+1)
	nr := verif.Choose("right", 3)
	if len(joinCols[cond][0]) > 1 && nl+nr > 3+verif.Tier() {
		verif.Assume(false) // two-column conditions: at most 3 rows in total (4 in the thorough tier)
	}
	if nl+nr > 4 {
		verif.Assume(false) // at most 4 rows in total
	}
	if strat == 2 && jt != 0 {
		verif.Assume(false) // STRAIGHT_JOIN is inner only
	}
	if str && cond != 0 && cond != 4 {
		verif.Assume(false) // string keys only with the single-column conditions
	}
	verif.Opt("maporder", 1)
	if parallel {
		verif.Opt("schedules", 1)
		verif.Opt("race", 1)
		verif.Opt("preempt", 1+verif.Tier())
		if str || (cond != 0 && cond != 4 && cond != 2) || nl+nr > 3 {
			verif.Assume(false) // parallel variants: numeric keys, three condition classes, at most 3 rows in total
		}
	}
	lrows, larr := joinSide(nl, joinCols[cond][0], str)
	rrows, rarr := joinSide(nr, joinCols[cond][1], str)
	doc := Map{"l": larr, "r": rarr}
	got, ok := runQuery(doc, "SELECT * FROM l x "+joinKeyword(jt, strat, parallel)+" r y ON "+joinConds[cond])
	if !ok {
		return
	}
	pairs, shaped := joinPairs(got, lrows, rrows)
	verif.Assert(shaped, "row-shape")
	if !shaped {
		return
	}
	verif.Assert(sameMultiset(pairs, refJoin(jt, cond, lrows, rrows, str)), "multiset")
	verif.Reach("end")
}

// H_C04_join: sequential strategies.
func H_C04_join() { joinHarness(false) }

// H_C04_parallel: PARALLEL variants under every schedule at
// synchronisation granularity, with the race monitor on.
func H_C04_parallel() { joinHarness(true) }

// H_C04_negzero: -0 and 0 are equal numbers and must join.
func H_C04_negzero() {
	z := 0.0
	doc := Map{"l": []any{Map{"a": -z}}, "r": []any{Map{"b": z}}}
	got, ok := runQuery(doc, "SELECT * FROM l x JOIN r y ON x.a = y.b")
	if !ok {
		return
	}
	verif.Assert(len(got) == 1, "negzero-joins")
	verif.Reach("end")
}

// H_C04_keytext: two-column equi-joins on small integer keys whose decimal
// texts can be confused when concatenated ((1,23) vs (12,3)).
func H_C04_keytext() {
	jt := verif.Choose("type", 3)
	strat := verif.Choose("strategy", 2)
	vals := []float64{1, 2, 3, 12, 23}
	pick := func(label string) float64 { return vals[verif.Choose(label, len(vals))] }
	l := Map{"a": pick("la"), "z": pick("lz")}
	r := Map{"m": pick("rm"), "b": pick("rb")}
	lrows, rrows := []Map{l}, []Map{r}
	got, ok := runQuery(Map{"l": []any{l}, "r": []any{r}}, "SELECT * FROM l x "+joinKeyword(jt, strat, false)+" r y ON "+joinConds[2])
	if !ok {
		return
	}
	pairs, shaped := joinPairs(got, lrows, rrows)
	verif.Assert(shaped, "row-shape")
	if !shaped {
		return
	}
	verif.Assert(sameMultiset(pairs, refJoin(jt, 2, lrows, rrows, false)), "multiset")
	verif.Reach("end")
}

// H_C04_mixedkinds: key cells of different scalar kinds (1 and '1' are equal
// under the library's `=`, 1 and '1.0' are not): every strategy gives the
// nested loop's answer.
func H_C04_mixedkinds() {
	jt := verif.Choose("type", 3)
	strat := verif.Choose("strategy", 3)
	cond := verif.Choose("cond", 2) * 4 // x.a = y.b | x.a < y.b
	if strat == 2 && jt != 0 {
		verif.Assume(false)
	}
	vals := []any{float64(1), "1", float64(2), "1.0", "2", true, "true"}
	texts := []string{"1", "1", "2", "1.0", "2", "true", "true"}
	li, lj := verif.Choose("l0", len(vals)), 2+2*verif.Choose("l1", 2) // second left row: 2 or '2'
	ri, rj := verif.Choose("r0", len(vals)), verif.Choose("r1", len(vals))
	if cond == 4 && (li >= 5 || lj >= 5 || ri >= 5 || rj >= 5 || strat != 0) {
		verif.Assume(false) // ordering: numbers and numeric strings, default strategy
	}
	lrows := []Map{{"a": vals[li], "id": float64(0)}, {"a": vals[lj], "id": float64(1)}}
	rrows := []Map{{"b": vals[ri], "id": float64(0)}, {"b": vals[rj], "id": float64(1)}}
	ltx, rtx := []int{li, lj}, []int{ri, rj}
	num := func(k int) (float64, bool) {
		f, ok := vals[k].(float64)
		return f, ok
	}
	holds := func(i, j int) bool {
		a, b := ltx[i], rtx[j]
		x, xn := num(a)
		y, yn := num(b)
		if cond == 0 {
			if xn && yn {
				return x == y
			}
			return texts[a] == texts[b]
		}
		if xn && yn {
			return x < y
		}
		return texts[a] < texts[b]
	}
	got, ok := runQuery(Map{"l": []any{lrows[0], lrows[1]}, "r": []any{rrows[0], rrows[1]}}, "SELECT * FROM l x "+joinKeyword(jt, strat, false)+" r y ON "+joinConds[cond])
	if !ok {
		return
	}
	pairs, shaped := joinPairs(got, lrows, rrows)
	verif.Assert(shaped, "row-shape")
	if !shaped {
		return
	}
	var want [][2]int
	lm, rm := [2]bool{}, [2]bool{}
	for i := 0; i < 2; i++ {
		for j := 0; j < 2; j++ {
			if holds(i, j) {
				want = append(want, [2]int{i, j})
				lm[i], rm[j] = true, true
			}
		}
	}
	for i := 0; i < 2; i++ {
		if jt == 1 && !lm[i] {
			want = append(want, [2]int{i, -1})
		}
		if jt == 2 && !rm[i] {
			want = append(want, [2]int{-1, i})
		}
	}
	verif.Assert(sameMultiset(pairs, want), "multiset")
	verif.Reach("end")
}

// H_C04_aliases: the answer does not depend on how the tables are aliased:
// aliases that are prefixes of one another, multi-letter aliases, either
// orientation of the ON conjunct.
func H_C04_aliases() {
	jt := verif.Choose("type", 3)
	strat := verif.Choose("strategy", 3)
	ai := verif.Choose("aliases", 5)
	cond := verif.Choose("cond", 3) // l = r | r = l | r >= l
	if strat == 2 && jt != 0 {
		verif.Assume(false)
	}
	pairs := [][2]string{{"x", "y"}, {"t", "t2"}, {"t2", "t"}, {"o", "oi"}, {"ab", "a"}}
	la, ra := pairs[ai][0], pairs[ai][1]
	nl, nr := verif.Choose("left", 3), verif.Choose("right", 3)
	lrows, larr := joinSide(nl, []string{"a"}, false)
	rrows, rarr := joinSide(nr, []string{"b"}, false)
	on := []string{la + ".a = " + ra + ".b", ra + ".b = " + la + ".a", ra + ".b >= " + la + ".a"}[cond]
	got, ok := runQuery(Map{"l": larr, "r": rarr}, "SELECT * FROM l "+la+" "+joinKeyword(jt, strat, false)+" r "+ra+" ON "+on)
	if !ok {
		return
	}
	// re-key the merged rows to x / y for the shared helpers
	var norm []any
	for _, g := range got {
		m, isMap := g.(Map)
		if !isMap || len(m) != 2 {
			verif.Assert(false, "row-shape")
			return
		}
		lv, hasL := m[la]
		rv, hasR := m[ra]
		if !hasL || !hasR {
			verif.Assert(false, "row-shape")
			return
		}
		norm = append(norm, Map{"x": lv, "y": rv})
	}
	prs, shaped := joinPairs(norm, lrows, rrows)
	verif.Assert(shaped, "row-shape")
	if !shaped {
		return
	}
	c := 0
	if cond == 2 {
		c = 8 // x.a >= y.b is cond 8 of the shared table with sides swapped: use a direct reference
	}
	var want [][2]int
	lm, rm := make([]bool, nl), make([]bool, nr)
	for i, l := range lrows {
		for j, r := range rrows {
			hold := f64of(l["a"]) == f64of(r["b"])
			if c == 8 {
				hold = f64of(r["b"]) >= f64of(l["a"])
			}
			if hold {
				want = append(want, [2]int{i, j})
				lm[i], rm[j] = true, true
			}
		}
	}
	for i := range lrows {
		if jt == 1 && !lm[i] {
			want = append(want, [2]int{i, -1})
		}
	}
	for j := range rrows {
		if jt == 2 && !rm[j] {
			want = append(want, [2]int{-1, j})
		}
	}
	verif.Assert(sameMultiset(prs, want), "multiset")
	verif.Reach("end")
}

// H_C04_casekeys: key columns whose names differ only in letter case are
// different columns: a two-column equi-join on (x, X) pairs rows that agree
// on both, under every strategy and conjunct order.
func H_C04_casekeys() {
	jt := verif.Choose("type", 3)
	strat := verif.Choose("strategy", 3)
	order := verif.Choose("conjunct-order", 2)
	if strat == 2 && jt != 0 {
		verif.Assume(false)
	}
	vals := []float64{1, 2}
	pick := func(l string) float64 { return vals[verif.Choose(l, 2)] }
	lrows := []Map{{"x": pick("l0x"), "X": pick("l0X")}, {"x": pick("l1x"), "X": pick("l1X")}}
	rrows := []Map{{"y": pick("r0y"), "Y": pick("r0Y")}, {"y": float64(1), "Y": float64(2)}}
	on := "a.x = b.y AND a.X = b.Y"
	if order == 1 {
		on = "a.X = b.Y AND a.x = b.y"
	}
	got, ok := runQuery(Map{"l": []any{lrows[0], lrows[1]}, "r": []any{rrows[0], rrows[1]}}, "SELECT * FROM l a "+joinKeyword(jt, strat, false)+" r b ON "+on)
	if !ok {
		return
	}
	var norm []any
	for _, g := range got {
		m, isMap := g.(Map)
		if !isMap || len(m) != 2 {
			verif.Assert(false, "row-shape")
			return
		}
		norm = append(norm, Map{"x": m["a"], "y": m["b"]})
	}
	prs, shaped := joinPairs(norm, lrows, rrows)
	verif.Assert(shaped, "row-shape")
	if !shaped {
		return
	}
	var want [][2]int
	lm, rm := [2]bool{}, [2]bool{}
	for i, l := range lrows {
		for j, r := range rrows {
			if f64of(l["x"]) == f64of(r["y"]) && f64of(l["X"]) == f64of(r["Y"]) {
				want = append(want, [2]int{i, j})
				lm[i], rm[j] = true, true
			}
		}
	}
	for i := 0; i < 2; i++ {
		if jt == 1 && !lm[i] {
			want = append(want, [2]int{i, -1})
		}
		if jt == 2 && !rm[i] {
			want = append(want, [2]int{-1, i})
		}
	}
	verif.Assert(sameMultiset(prs, want), "multiset")
	verif.Reach("end")
}

// H_C04_conjuncts: ON conditions with three conjuncts over three column
// pairs: every combination of =, < and != in every position (so a
// non-equality between two equalities too), nested to the left (a AND b AND
// c) or to the right (a AND (b AND c)), for every join type and strategy.
func H_C04_conjuncts() {
	jt := verif.Choose("type", 3)
	strat := verif.Choose("strategy", 3)
	ops := [3]int{verif.Choose("op1", 3), verif.Choose("op2", 3), verif.Choose("op3", 3)}
	nest := verif.Choose("nesting", 2)
	shape := verif.Choose("shape", 1+verif.Tier()) // one row on each side (2 x 1 too in the thorough tier)
	if strat == 2 && jt != 0 {
		verif.Assume(false) // STRAIGHT_JOIN is inner only
	}
	if shape == 1 && (jt != 0 || nest != 0 || strat == 2) {
		verif.Assume(false) // two left rows: inner joins, left nesting, automatic and HASH_JOIN strategies
	}
	nl, nr := 1, 1
	switch shape {
	case 1:
		nl = 2
	case 2:
		nr = 2
	}
	verif.Opt("maporder", 1)
	lrows, larr := joinSide(nl, []string{"a", "c", "e"}, false)
	rrows, rarr := joinSide(nr, []string{"b", "d", "f"}, false)
	sym := []string{"=", "<", "!="}
	cj := [3]string{"x.a " + sym[ops[0]] + " y.b", "x.c " + sym[ops[1]] + " y.d", "x.e " + sym[ops[2]] + " y.f"}
	on := cj[0] + " AND " + cj[1] + " AND " + cj[2]
	if nest == 1 {
		on = cj[0] + " AND (" + cj[1] + " AND " + cj[2] + ")"
	}
	got, ok := runQuery(Map{"l": larr, "r": rarr}, "SELECT * FROM l x "+joinKeyword(jt, strat, false)+" r y ON "+on)
	if !ok {
		return
	}
	pairs, shaped := joinPairs(got, lrows, rrows)
	verif.Assert(shaped, "row-shape")
	if !shaped {
		return
	}
	holds := func(op int, u, v any) bool {
		switch op {
		case 0:
			return f64of(u) == f64of(v)
		case 1:
			return f64of(u) < f64of(v)
		}
		return f64of(u) != f64of(v)
	}
	var want [][2]int
	lm, rm := make([]bool, nl), make([]bool, nr)
	for i, l := range lrows {
		for j, r := range rrows {
			if holds(ops[0], l["a"], r["b"]) && holds(ops[1], l["c"], r["d"]) && holds(ops[2], l["e"], r["f"]) {
				want = append(want, [2]int{i, j})
				lm[i], rm[j] = true, true
			}
		}
	}
	for i := range lrows {
		if jt == 1 && !lm[i] {
			want = append(want, [2]int{i, -1})
		}
	}
	for j := range rrows {
		if jt == 2 && !rm[j] {
			want = append(want, [2]int{-1, j})
		}
	}
	verif.Assert(sameMultiset(pairs, want), "multiset")
	verif.Reach("end")
}
