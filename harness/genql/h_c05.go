package genql

import (
	"math"

	verif "github.com/vedadiyan/genql/zz_verif"
)

// numTable builds {"t": [ {a: x0}, ... ]} with n symbolic non-NaN cells.
func numTable(n int, cols ...string) (Map, []Map) {
	rows := make([]Map, n)
	arr := make([]any, n)
	for i := 0; i < n; i++ {
		r := Map{}
		for _, c := range cols {
			x := verif.F64(c)
			verif.Assume(x == x)
			r[c] = x
		}
		rows[i] = r
		arr[i] = r
	}
	return Map{"t": arr}, rows
}

// H_C05_window: LIMIT/OFFSET with symbolic limit and offset return the
// exact window of the source sequence and never fail.
func H_C05_window() {
	n := verif.Choose("rows", 4)
	doc, rows := numTable(n, "a")
	// any non-negative int: LIMIT 9223372036854775807 is MySQL's idiom for
	// "all rows from OFFSET on"
	lim := verif.IntRange("limit", 0, math.MaxInt64)
	off := verif.IntRange("offset", 0, math.MaxInt64)
	q, err := New(doc, verif.SQL("SELECT a FROM t LIMIT ? OFFSET ?", lim, off))
	verif.Assert(err == nil, "new-no-error")
	if err != nil {
		return
	}
	got, err := q.Exec()
	verif.Assert(err == nil, "exec-no-error")
	if err != nil {
		return
	}
	// reference window
	var want []any
	for i := 0; i < n; i++ {
		if i >= off && i-off < lim {
			want = append(want, Map{"a": rows[i]["a"]})
		}
	}
	verif.Assert(verif.Eq(got, want), "window")
	verif.Reach("end")
}

var dirs = []string{"", " ASC", " DESC"}

// lessKey reports whether key x sorts strictly before key y in direction d.
func lessNum(x, y float64, d int) bool {
	if d == 2 {
		return x > y
	}
	return x < y
}

// H_C05_order_num: ORDER BY one or two numeric keys with directions: the
// output is a permutation of the input (by content) in which every adjacent
// pair respects the key list lexicographically.
func H_C05_order_num() {
	n := verif.Choose("rows", maxRows(3, 4)+1)
	d1 := verif.Choose("dir1", 3)
	two := verif.Choose("keys", 2)
	d2 := 0
	if two == 1 {
		d2 = verif.Choose("dir2", 3)
	}
	doc, rows := numTable(n, "a", "b")
	// a unique tag per row makes the permutation check exact
	for i, r := range rows {
		r["id"] = float64(i)
	}
	sql := "SELECT id, a, b FROM t ORDER BY a" + dirs[d1]
	if two == 1 {
		sql += ", b" + dirs[d2]
	}
	got, ok := runQuery(doc, sql)
	if !ok {
		return
	}
	verif.Assert(len(got) == n, "count")
	if len(got) != n {
		return
	}
	seen := make([]bool, n)
	perm := true
	for _, g := range got {
		m, isMap := g.(Map)
		if !isMap {
			perm = false
			break
		}
		id, isNum := m["id"].(float64)
		if !isNum || id < 0 || int(id) >= n || seen[int(id)] {
			perm = false
			break
		}
		seen[int(id)] = true
		src := rows[int(id)]
		if !verif.Eq(g, Map{"id": id, "a": src["a"], "b": src["b"]}) {
			perm = false
		}
	}
	verif.Assert(perm, "permutation")
	if !perm {
		return
	}
	sorted := true
	for i := 0; i+1 < len(got); i++ {
		x, y := got[i].(Map), got[i+1].(Map)
		xa, ya := f64of(x["a"]), f64of(y["a"])
		if lessNum(ya, xa, d1) {
			sorted = false
		}
		if two == 1 && xa == ya && lessNum(f64of(y["b"]), f64of(x["b"]), d2) {
			sorted = false
		}
	}
	verif.Assert(sorted, "sorted")
	verif.Reach("end")
}

// H_C05_order_str: ORDER BY a string key (byte-wise order).
func H_C05_order_str() {
	n := verif.Choose("rows", maxRows(3, 3)+1)
	d := verif.Choose("dir", 3)
	doc, rows := strTable(n, 2, "", "s")
	for i, r := range rows {
		r["id"] = float64(i)
	}
	got, ok := runQuery(doc, "SELECT id, s FROM t ORDER BY s"+dirs[d])
	if !ok {
		return
	}
	verif.Assert(len(got) == n, "count")
	if len(got) != n {
		return
	}
	seen := make([]bool, n)
	perm := true
	for _, g := range got {
		m := g.(Map)
		id, isNum := m["id"].(float64)
		if !isNum || id < 0 || int(id) >= n || seen[int(id)] {
			perm = false
			break
		}
		seen[int(id)] = true
		if !verif.Eq(m["s"], rows[int(id)]["s"]) {
			perm = false
		}
	}
	verif.Assert(perm, "permutation")
	if !perm {
		return
	}
	sorted := true
	for i := 0; i+1 < len(got); i++ {
		x, y := strof(got[i].(Map)["s"]), strof(got[i+1].(Map)["s"])
		if d == 2 {
			if x < y {
				sorted = false
			}
		} else if y < x {
			sorted = false
		}
	}
	verif.Assert(sorted, "sorted")
	verif.Reach("end")
}

// H_C05_order_null: rows whose single sort key is NULL come after all rows
// whose key is non-NULL, in either direction.
func H_C05_order_null() {
	n := verif.Choose("rows", maxRows(3, 4)+1)
	d := verif.Choose("dir", 3)
	rows := make([]Map, n)
	arr := make([]any, n)
	for i := range rows {
		r := Map{"id": float64(i)}
		if verif.Choose("null", 2) == 1 {
			r["a"] = nil
		} else {
			x := verif.F64("a")
			verif.Assume(x == x)
			r["a"] = x
		}
		rows[i], arr[i] = r, r
	}
	got, ok := runQuery(Map{"t": arr}, "SELECT id, a FROM t ORDER BY a"+dirs[d])
	if !ok {
		return
	}
	verif.Assert(len(got) == n, "count")
	if len(got) != n {
		return
	}
	okOrder := true
	seenNull := false
	for i, g := range got {
		a := g.(Map)["a"]
		if a == nil {
			seenNull = true
			continue
		}
		if seenNull {
			okOrder = false
		}
		if i > 0 {
			if p := got[i-1].(Map)["a"]; p != nil && lessNum(f64of(a), f64of(p), d) {
				okOrder = false
			}
		}
	}
	verif.Assert(okOrder, "nulls-last-sorted")
	verif.Reach("end")
}

// H_C05_window_sorted: WHERE + ORDER BY + LIMIT/OFFSET in both spellings.
func H_C05_window_sorted() {
	n := verif.Choose("rows", maxRows(3, 4)+1)
	spelling := verif.Choose("spelling", 2)
	doc, rows := numTable(n, "a")
	c := verif.F64("c")
	lim := verif.IntRange("limit", 0, math.MaxInt64)
	off := verif.IntRange("offset", 0, math.MaxInt64)
	var sql string
	if spelling == 0 {
		sql = verif.SQL("SELECT a FROM t WHERE a > ? ORDER BY a LIMIT ? OFFSET ?", c, lim, off)
	} else {
		sql = verif.SQL("SELECT a FROM t WHERE a > ? ORDER BY a LIMIT ?, ?", c, off, lim)
	}
	got, ok := runQuery(doc, sql)
	if !ok {
		return
	}
	// reference: filter, insertion sort, window
	var kept []float64
	for _, r := range rows {
		if a := f64of(r["a"]); a > c {
			kept = append(kept, a)
		}
	}
	for i := 1; i < len(kept); i++ {
		for j := i; j > 0 && kept[j] < kept[j-1]; j-- {
			kept[j], kept[j-1] = kept[j-1], kept[j]
		}
	}
	var want []any
	for i, a := range kept {
		if i >= off && i-off < lim {
			want = append(want, Map{"a": a})
		}
	}
	verif.Assert(verif.Eq(got, want), "window")
	verif.Reach("end")
}

// H_C05_window_distinct: the window is taken from the sequence that is
// actually returned: after DISTINCT removed duplicates.
func H_C05_window_distinct() {
	n := verif.Choose("rows", maxRows(3, 4)+1)
	ordered := verif.Choose("ordered", 2)
	doc, rows := numTable(n, "a")
	for _, r := range rows {
		verif.Assume(verif.NotNegZero(f64of(r["a"])))
	}
	lim := verif.IntRange("limit", 0, math.MaxInt64)
	off := verif.IntRange("offset", 0, math.MaxInt64)
	sql := "SELECT DISTINCT a FROM t"
	if ordered == 1 {
		sql += " ORDER BY a"
	}
	got, ok := runQuery(doc, verif.SQL(sql+" LIMIT ? OFFSET ?", lim, off))
	if !ok {
		return
	}
	var proj []any
	for _, r := range rows {
		proj = append(proj, Map{"a": r["a"]})
	}
	seq := refDistinct(proj)
	if ordered == 1 {
		for i := 1; i < len(seq); i++ {
			for j := i; j > 0 && f64of(seq[j].(Map)["a"]) < f64of(seq[j-1].(Map)["a"]); j-- {
				seq[j], seq[j-1] = seq[j-1], seq[j]
			}
		}
	}
	var want []any
	for i, r := range seq {
		if i >= off && i-off < lim {
			want = append(want, r)
		}
	}
	verif.Assert(verif.Eq(got, want), "window")
	verif.Reach("end")
}

// H_C05_order_alias: ORDER BY names output columns: a renamed column, a
// computed alias, and an alias that shadows a different source column.
func H_C05_order_alias() {
	n := verif.Choose("rows", maxRows(3, 4)+1)
	form := verif.Choose("form", 4)
	d := verif.Choose("dir", 3)
	doc, rows := numTable(n, "a", "b")
	for i, r := range rows {
		r["id"] = float64(i)
	}
	var sql string
	key := func(r Map) float64 { return f64of(r["a"]) }
	switch form {
	case 0:
		sql = "SELECT id, a AS k FROM t ORDER BY k" + dirs[d]
	case 1:
		sql = "SELECT id, a + b AS k FROM t ORDER BY k" + dirs[d]
		key = func(r Map) float64 { return f64of(r["a"]) + f64of(r["b"]) }
	case 2:
		// the output column a holds the source column b
		sql = "SELECT id, b AS a FROM t ORDER BY a" + dirs[d]
		key = func(r Map) float64 { return f64of(r["b"]) }
	case 3:
		sql = "SELECT id, a AS k FROM t ORDER BY k" + dirs[d] + " LIMIT 2 OFFSET 1"
	}
	if form == 1 {
		for _, r := range rows {
			s := key(r)
			verif.Assume(s == s) // inf + -inf
		}
	}
	got, ok := runQuery(doc, sql)
	if !ok {
		return
	}
	// reference: the ids in the order a stable sort by the key gives; ties
	// may come in any order, so compare the key sequence and the id set
	type kv struct {
		id int
		k  float64
	}
	var ref []kv
	for i, r := range rows {
		ref = append(ref, kv{i, key(r)})
	}
	for i := 1; i < len(ref); i++ {
		for j := i; j > 0 && lessNum(ref[j].k, ref[j-1].k, d); j-- {
			ref[j], ref[j-1] = ref[j-1], ref[j]
		}
	}
	lo, hi := 0, len(ref)
	if form == 3 {
		lo, hi = 1, 3
		if lo > len(ref) {
			lo = len(ref)
		}
		if hi > len(ref) {
			hi = len(ref)
		}
	}
	verif.Assert(len(got) == hi-lo, "count")
	if len(got) != hi-lo {
		return
	}
	okKeys, okRows := true, true
	for i, g := range got {
		m, isMap := g.(Map)
		if !isMap {
			okRows = false
			break
		}
		id, isNum := m["id"].(float64)
		if !isNum || id < 0 || int(id) >= n {
			okRows = false
			break
		}
		col := "k"
		if form == 2 {
			col = "a"
		}
		if !verif.Eq(g, Map{"id": id, col: key(rows[int(id)])}) {
			okRows = false
		}
		if key(rows[int(id)]) != ref[lo+i].k {
			okKeys = false
		}
	}
	verif.Assert(okRows, "rows-are-projections-of-source-rows")
	verif.Assert(okKeys, "key-sequence-sorted")
	verif.Reach("end")
}

// H_C05_pipeline: the clauses together. WHERE filters, then the select list
// shapes the rows (plain / DISTINCT / GROUP BY [HAVING]), then ORDER BY sorts
// that unordered result by an output column, then LIMIT/OFFSET cuts the
// sorted sequence - against a reference evaluator of the whole pipeline.
func H_C05_pipeline() {
	n := verif.Choose("rows", maxRows(2, 3)+1)
	where := verif.Choose("where", 2)
	shape := verif.Choose("shape", 5) // 4: aggregates over the whole (filtered) table
	order := verif.Choose("order", 3)
	window := verif.Choose("window", 2)
	ordcol := 0
	if order > 0 {
		ordcol = verif.Choose("ordcol", 2) // sort by k, or by the second output column (v / the aggregate alias s)
		if (ordcol == 1 && shape == 1) || shape == 4 {
			verif.Assume(false)
		}
	}
	verif.Opt("maporder", 3)
	doc, rows := numTable(n, "k", "v")
	c, h := verif.F64("c"), verif.F64("h")
	lim, off := 0, 0
	sql := []string{"SELECT k, v FROM t", "SELECT DISTINCT k FROM t", "SELECT k, SUM(v) AS s FROM t", "SELECT k, SUM(v) AS s FROM t", "SELECT COUNT(*) AS c, SUM(v) AS s FROM t"}[shape]
	var holes []any
	if where == 1 {
		sql += " WHERE v > ?"
		holes = append(holes, c)
	}
	if shape == 2 || shape == 3 {
		sql += " GROUP BY k"
	}
	if shape == 3 {
		sql += " HAVING SUM(v) > ?"
		holes = append(holes, h)
	}
	if order > 0 {
		col := "k"
		if ordcol == 1 {
			col = []string{"v", "", "s", "s"}[shape]
		}
		sql += " ORDER BY " + col + []string{"", "", " DESC"}[order]
	}
	if window == 1 {
		lim, off = verif.IntRange("limit", 0, 3), verif.IntRange("offset", 0, 3)
		sql += " LIMIT ? OFFSET ?"
		holes = append(holes, lim, off)
	}
	for _, r := range rows {
		verif.Assume(verif.NotNegZero(f64of(r["k"]))) // DISTINCT / GROUP BY key text
	}
	got, ok := runQuery(doc, verif.SQL(sql, holes...))
	if !ok {
		return
	}
	// reference pipeline
	var kept []Map
	for _, r := range rows {
		if where == 0 || f64of(r["v"]) > c {
			kept = append(kept, r)
		}
	}
	type orow struct {
		k   float64
		row Map
	}
	var shaped []orow
	switch shape {
	case 0:
		for _, r := range kept {
			shaped = append(shaped, orow{f64of(r["k"]), Map{"k": r["k"], "v": r["v"]}})
		}
	case 1:
		for _, r := range kept {
			dup := false
			for _, s := range shaped {
				if s.k == f64of(r["k"]) {
					dup = true
				}
			}
			if !dup {
				shaped = append(shaped, orow{f64of(r["k"]), Map{"k": r["k"]}})
			}
		}
	case 4:
		shaped = append(shaped, orow{0, Map{"c": len(kept), "s": refSum(kept, "v")}})
	default:
		for _, g := range refGroupBy(kept, "k") {
			s := refSum(g.members, "v")
			if shape == 3 && !(f64of(s) > h) {
				continue
			}
			shaped = append(shaped, orow{g.key[0], Map{"k": g.key[0], "s": s}})
		}
	}
	if shape >= 2 {
		for _, s := range shaped {
			if s.row["s"] != nil {
				x := f64of(s.row["s"])
				verif.Assume(x == x) // inf + -inf
			}
		}
	}
	if ordcol == 1 {
		// the sort key is the second output column
		for i := range shaped {
			shaped[i].k = f64of(shaped[i].row[[]string{"v", "", "s", "s"}[shape]])
		}
	}
	if order > 0 {
		for i := 1; i < len(shaped); i++ {
			for j := i; j > 0 && lessNum(shaped[j].k, shaped[j-1].k, order); j-- {
				shaped[j], shaped[j-1] = shaped[j-1], shaped[j]
			}
		}
	}
	lo, hi := 0, len(shaped)
	if window == 1 {
		lo = off
		if lo > len(shaped) {
			lo = len(shaped)
		}
		hi = lo + lim
		if hi > len(shaped) {
			hi = len(shaped)
		}
	}
	want := shaped[lo:hi]
	verif.Assert(len(got) == len(want), "count")
	if len(got) != len(want) {
		return
	}
	ties := false
	for i := 0; i+1 < len(shaped); i++ {
		for j := i + 1; j < len(shaped); j++ {
			if shaped[i].k == shaped[j].k {
				ties = true
			}
		}
	}
	if !ties || order == 0 {
		// the sequence is fully determined
		exact := true
		for i := range want {
			if !verif.Eq(got[i], want[i].row) {
				exact = false
			}
		}
		verif.Assert(exact, "pipeline-result")
	} else {
		// equal sort keys: the key sequence is determined, rows with equal keys may swap
		seq := true
		for i := range want {
			m, isMap := got[i].(Map)
			col := "k"
			if ordcol == 1 {
				col = []string{"v", "", "s", "s"}[shape]
			}
			if !isMap || f64of(m[col]) != want[i].k {
				seq = false
			}
		}
		verif.Assert(seq, "pipeline-key-sequence")
	}
	verif.Reach("end")
}

// H_C05_literals: LIMIT and OFFSET written with leading zeros (and both
// spellings of the clause) mean their decimal value; never an error.
func H_C05_literals() {
	lims := []string{"010", "08", "0011", "3", "00", "012"}
	limv := []int{10, 8, 11, 3, 0, 12}
	offs := []string{"", "010", "09", "01", "2"}
	offv := []int{0, 10, 9, 1, 2}
	li := verif.Choose("limit", len(lims))
	oi := verif.Choose("offset", len(offs))
	spelling := verif.Choose("spelling", 2)
	n := 12 + verif.Choose("extra-rows", 2)
	arr := make([]any, n)
	for i := range arr {
		arr[i] = Map{"id": float64(i)}
	}
	sql := "SELECT id FROM t LIMIT " + lims[li]
	if oi > 0 {
		if spelling == 0 {
			sql += " OFFSET " + offs[oi]
		} else {
			sql = "SELECT id FROM t LIMIT " + offs[oi] + ", " + lims[li]
		}
	}
	got, ok := runQuery(Map{"t": arr}, sql)
	if !ok {
		return
	}
	var want []any
	for i := 0; i < n; i++ {
		if i >= offv[oi] && i-offv[oi] < limv[li] {
			want = append(want, Map{"id": float64(i)})
		}
	}
	verif.Assert(verif.Eq(got, want), "window")
	verif.Reach("end")
}

// H_C05_order_ints: sort keys of Go integer types (tables built in Go, not
// decoded from JSON) order by their exact value, also above 2^53 where
// float64 no longer tells neighbours apart.
func H_C05_order_ints() {
	kind := verif.Choose("kind", 3)
	base := []int64{1 << 53, math.MaxInt64 - 3, 5}[verif.Choose("base", 3)]
	perm := [][]int64{{0, 1, 2, 3}, {1, 0, 3, 2}, {3, 2, 1, 0}, {2, 0, 3, 1}}[verif.Choose("input-order", 4)]
	d := verif.Choose("dir", 3)
	arr := make([]any, 4)
	for i, off := range perm {
		var key any
		switch kind {
		case 0:
			key = base + off
		case 1:
			key = int(base + off)
		case 2:
			key = uint64(base + off)
		}
		arr[i] = Map{"id": key, "n": float64(off)}
	}
	want := []any{Map{"n": float64(0)}, Map{"n": float64(1)}, Map{"n": float64(2)}, Map{"n": float64(3)}}
	if d == 2 {
		want = []any{Map{"n": float64(3)}, Map{"n": float64(2)}, Map{"n": float64(1)}, Map{"n": float64(0)}}
	}
	got2, ok := runQuery(Map{"t": arr}, "SELECT id, n FROM t ORDER BY id"+dirs[d])
	if !ok {
		return
	}
	var ns []any
	for _, g := range got2 {
		ns = append(ns, Map{"n": g.(Map)["n"]})
	}
	verif.Assert(verif.Eq(ns, want), "sorted-by-exact-integer-value")
	verif.Reach("end")
}

// H_C05_order_many: two sort keys with ties on the first, on 13..16 rows
// (above the size up to which the standard library's sort is an insertion
// sort): every adjacent pair respects (g ASC, v DESC).
func H_C05_order_many() {
	n := 13 + verif.Choose("extra-rows", 4)
	seed := verif.Choose("seed", 4)
	arr := make([]any, n)
	x := uint32(7 + 13*seed)
	for i := range arr {
		x = x*1664525 + 1013904223
		arr[i] = Map{"id": float64(i), "g": float64((x >> 16) % 3), "v": float64((x >> 8) % 5)}
	}
	got, ok := runQuery(Map{"t": arr}, "SELECT id, g, v FROM t ORDER BY g, v DESC")
	if !ok {
		return
	}
	verif.Assert(len(got) == n, "count")
	seen := make([]bool, n)
	okPerm, sorted := len(got) == n, true
	for i, r := range got {
		m := r.(Map)
		id := int(f64of(m["id"]))
		if id < 0 || id >= n || seen[id] || !verif.Eq(m, arr[id]) {
			okPerm = false
			break
		}
		seen[id] = true
		if i > 0 {
			p := got[i-1].(Map)
			pg, pv, g, v := f64of(p["g"]), f64of(p["v"]), f64of(m["g"]), f64of(m["v"])
			if g < pg || (g == pg && v > pv) {
				sorted = false
			}
		}
	}
	verif.Assert(okPerm, "permutation")
	verif.Assert(sorted, "sorted")
	verif.Reach("end")
}
