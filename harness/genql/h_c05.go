package genql

import verif "github.com/vedadiyan/genql/zz_verif"

// numTable builds {"t": [ {a: x0}, ... ]} with n symbolic non-NaN cells.
func numTable(n int, cols ...string) (Map, []Map) {
	rows := make([]Map, n)
	arr := make([]any, n)
	for i := 0; i < n; i++ {
		r := Map{}
		for _, c := range cols {
			x := verif.F64(c)
			verif.Assume(x == x)
			r[c] = x
		}
		rows[i] = r
		arr[i] = r
	}
	return Map{"t": arr}, rows
}

// H_C05_window: LIMIT/OFFSET with symbolic limit and offset return the
// exact window of the source sequence and never fail.
func H_C05_window() {
	n := verif.Choose("rows", 4)
	doc, rows := numTable(n, "a")
	lim := verif.IntRange("limit", 0, 1<<31-1)
	off := verif.IntRange("offset", 0, 1<<31-1)
	q, err := New(doc, verif.SQL("SELECT a FROM t LIMIT ? OFFSET ?", lim, off))
	verif.Assert(err == nil, "new-no-error")
	if err != nil {
		return
	}
	got, err := q.Exec()
	verif.Assert(err == nil, "exec-no-error")
	if err != nil {
		return
	}
	// reference window
	var want []any
	for i := 0; i < n; i++ {
		if i >= off && i-off < lim {
			want = append(want, Map{"a": rows[i]["a"]})
		}
	}
	verif.Assert(verif.Eq(got, want), "window")
	verif.Reach("end")
}
