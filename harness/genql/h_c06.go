package genql

import verif "github.com/vedadiyan/genql/zz_verif"

// refDistinct keeps the first occurrence of every distinct row (cell-wise).
func refDistinct(rows []any) []any {
	var out []any
	for _, r := range rows {
		dup := false
		for _, o := range out {
			if verif.Eq(r, o) {
				dup = true
				break
			}
		}
		if !dup {
			out = append(out, r)
		}
	}
	return out
}

// H_C06_distinct_num: SELECT DISTINCT over two numeric columns.
func H_C06_distinct_num() {
	n := verif.Choose("rows", maxRows(3, 4)+1)
	doc, rows := numTable(n, "a", "b")
	for _, r := range rows {
		verif.Assume(verif.All(verif.NotNegZero(f64of(r["a"])), verif.NotNegZero(f64of(r["b"]))))
	}
	// with and without a window: the window applies to the distinct rows
	win := verif.Choose("window", 2)
	lim, off := 0, 0
	sql := "SELECT DISTINCT a, b FROM t"
	if win == 1 {
		lim, off = verif.IntRange("limit", 0, 4), verif.IntRange("offset", 0, 4)
		sql = verif.SQL("SELECT DISTINCT a, b FROM t LIMIT ? OFFSET ?", lim, off)
	}
	got, ok := runQuery(doc, sql)
	if !ok {
		return
	}
	var proj []any
	for _, r := range rows {
		proj = append(proj, Map{"a": r["a"], "b": r["b"]})
	}
	want := refDistinct(proj)
	if win == 1 {
		var cut []any
		for i, r := range want {
			if i >= off && i-off < lim {
				cut = append(cut, r)
			}
		}
		want = cut
	}
	verif.Assert(verif.Eq(got, want), "distinct")
	verif.Reach("end")
}

// H_C06_distinct_str: DISTINCT over string cells whose %v text can collide
// ("x b:y" in one column vs. two columns).
func H_C06_distinct_str() {
	n := verif.Choose("rows", 3)
	doc, rows := strTable(n, 3, " :b", "a", "b")
	got, ok := runQuery(doc, "SELECT DISTINCT a, b FROM t")
	if !ok {
		return
	}
	var proj []any
	for _, r := range rows {
		proj = append(proj, Map{"a": r["a"], "b": r["b"]})
	}
	verif.Assert(verif.Eq(got, refDistinct(proj)), "distinct")
	verif.Reach("end")
}

// H_C06_union: A UNION [ALL] B [UNION [ALL] C] [LIMIT n].
func H_C06_union() {
	form := verif.Choose("form", 17)
	na := verif.Choose("a", 3)
	nb := verif.Choose("b", 3)
	mk := func(n int, col string) ([]Map, []any) {
		rows := make([]Map, n)
		arr := make([]any, n)
		for i := range rows {
			x := verif.F64(col)
			verif.Assume(verif.All(x == x, verif.NotNegZero(x)))
			rows[i] = Map{"v": x}
			arr[i] = rows[i]
		}
		return rows, arr
	}
	_, a := mk(na, "a")
	_, b := mk(nb, "b")
	_, c := mk(1, "c")
	doc := Map{"a": a, "b": b, "c": c}
	lim := verif.IntRange("limit", 0, 10)
	off := 0
	if form >= 8 {
		off = verif.IntRange("offset", 0, 5)
	}
	blim := 0 // a branch's own LIMIT (forms 10..12)
	if form >= 10 {
		blim = verif.IntRange("branch-limit", 0, 3)
	}
	var sql string
	switch form {
	case 13:
		// a branch without FROM (one constant row)
		sql = "SELECT v FROM a UNION ALL SELECT 9 AS v"
	case 14:
		sql = "SELECT 9 AS v UNION ALL SELECT v FROM a"
	case 15:
		sql = "SELECT v FROM a UNION SELECT 9 AS v UNION SELECT 9 AS v"
	case 16:
		sql = verif.SQL("SELECT 9 AS v UNION ALL SELECT v FROM a UNION ALL SELECT v FROM b LIMIT ?", lim)
	case 10:
		// a plain SELECT branch with its own window inside a union with a LIMIT
		sql = verif.SQL("(SELECT v FROM a LIMIT ?) UNION ALL SELECT v FROM b LIMIT ?", blim, lim)
	case 11:
		sql = verif.SQL("(SELECT v FROM a LIMIT ? OFFSET ?) UNION ALL (SELECT v FROM b) LIMIT ?", blim, off, lim)
	case 12:
		sql = verif.SQL("SELECT v FROM b UNION (SELECT v FROM a LIMIT ? OFFSET ?) LIMIT ?", blim, off, lim)
	case 8:
		sql = verif.SQL("SELECT v FROM a UNION SELECT v FROM b LIMIT ? OFFSET ?", lim, off)
	case 9:
		sql = verif.SQL("SELECT v FROM a UNION ALL SELECT v FROM b LIMIT ? OFFSET ?", lim, off)
	case 0:
		sql = "SELECT v FROM a UNION ALL SELECT v FROM b"
	case 1:
		sql = "SELECT v FROM a UNION SELECT v FROM b"
	case 2:
		sql = "SELECT v FROM a UNION ALL SELECT v FROM b UNION ALL SELECT v FROM c"
	case 3:
		sql = verif.SQL("SELECT v FROM a UNION ALL SELECT v FROM b LIMIT ?", lim)
	case 4:
		sql = "SELECT v FROM a UNION SELECT v FROM b UNION ALL SELECT v FROM c"
	case 5:
		sql = verif.SQL("(SELECT v FROM a UNION SELECT v FROM b LIMIT ?) UNION SELECT v FROM c", lim)
	case 6:
		sql = verif.SQL("(SELECT v FROM a UNION ALL SELECT v FROM b LIMIT ?) UNION ALL SELECT v FROM c", lim)
	case 7:
		sql = verif.SQL("SELECT v FROM c UNION (SELECT v FROM a UNION SELECT v FROM b LIMIT ?)", lim)
	}
	got, ok := runQuery(doc, sql)
	if !ok {
		return
	}
	cat := append(append([]any(nil), a...), b...)
	var want []any
	switch form {
	case 0:
		want = cat
	case 1:
		want = refDistinct(cat)
	case 2:
		want = append(cat, c...)
	case 3:
		for i, r := range cat {
			if i < lim {
				want = append(want, r)
			}
		}
	case 4:
		want = append(refDistinct(cat), c...)
	case 13:
		want = append(append([]any(nil), a...), Map{"v": float64(9)})
	case 14:
		want = append([]any{Map{"v": float64(9)}}, a...)
	case 15:
		want = refDistinct(append(append([]any(nil), a...), Map{"v": float64(9)}))
	case 16:
		all := append(append([]any{Map{"v": float64(9)}}, a...), b...)
		for i, r := range all {
			if i < lim {
				want = append(want, r)
			}
		}
	case 10, 11, 12:
		var acut []any
		o := off
		if form == 10 {
			o = 0
		}
		for i, r := range a {
			if i >= o && i-o < blim {
				acut = append(acut, r)
			}
		}
		var all []any
		if form == 12 {
			all = refDistinct(append(append([]any(nil), b...), acut...))
		} else {
			all = append(acut, b...)
		}
		for i, r := range all {
			if i < lim {
				want = append(want, r)
			}
		}
	case 8, 9:
		// the window applies after duplicate removal
		all := cat
		if form == 8 {
			all = refDistinct(cat)
		}
		for i, r := range all {
			if i >= off && i-off < lim {
				want = append(want, r)
			}
		}
	case 5, 6, 7:
		inner := cat
		if form != 6 {
			inner = refDistinct(cat)
		}
		var cut []any
		for i, r := range inner {
			if i < lim {
				cut = append(cut, r)
			}
		}
		switch form {
		case 5:
			want = refDistinct(append(cut, c...))
		case 6:
			want = append(cut, c...)
		case 7:
			want = refDistinct(append(append([]any(nil), c...), cut...))
		}
	}
	verif.Assert(verif.Eq(got, want), "union")
	verif.Reach("end")
}

// H_C06_distinct_group: DISTINCT applies to the output rows also when they
// come from GROUP BY (a projection of the group key can repeat).
func H_C06_distinct_group() {
	n := verif.Choose("rows", 4) // 0..3 rows in both tiers (map-order decisions of a two-column GROUP BY)
	form := verif.Choose("form", 2)
	verif.Opt("maporder", 3)
	doc, rows := numTable(n, "a", "b")
	for _, r := range rows {
		verif.Assume(verif.All(verif.NotNegZero(f64of(r["a"])), verif.NotNegZero(f64of(r["b"]))))
	}
	sql := "SELECT DISTINCT a FROM t GROUP BY a, b"
	if form == 1 {
		sql = "SELECT DISTINCT a, COUNT(*) AS n FROM t GROUP BY a, b"
	}
	got, ok := runQuery(doc, sql)
	if !ok {
		return
	}
	var proj []any
	for _, g := range refGroupBy(rows, "a", "b") {
		if form == 0 {
			proj = append(proj, Map{"a": g.key[0]})
		} else {
			proj = append(proj, Map{"a": g.key[0], "n": len(g.members)})
		}
	}
	verif.Assert(verif.Eq(got, refDistinct(proj)), "distinct-over-groups")
	verif.Reach("end")
}

// H_C06_distinct_ragged: rows are compared on all their columns, whichever
// columns the first row has: tables whose rows do not share one key set
// under DISTINCT *, and unions whose branches have different select lists
// (narrow branch first and wide branch first).
func H_C06_distinct_ragged() {
	n := verif.Choose("rows", maxRows(3, 3)+1)
	form := verif.Choose("form", 4)
	doc, rows := numTable(n, "a", "b")
	for _, r := range rows {
		verif.Assume(verif.All(verif.NotNegZero(f64of(r["a"])), verif.NotNegZero(f64of(r["b"]))))
		if form == 0 && verif.Choose("has-b", 2) == 0 {
			delete(r, "b")
		}
	}
	var sql string
	var all []any
	narrow, wide, other := []any{}, []any{}, []any{}
	for _, r := range rows {
		narrow = append(narrow, Map{"a": r["a"]})
		wide = append(wide, Map{"a": r["a"], "b": r["b"]})
		other = append(other, Map{"b": r["b"]})
	}
	switch form {
	case 0:
		sql = "SELECT DISTINCT * FROM t"
		for _, r := range rows {
			c := Map{}
			for k, v := range r {
				c[k] = v
			}
			all = append(all, c)
		}
	case 1:
		sql = "SELECT a FROM t UNION SELECT a, b FROM t"
		all = append(narrow, wide...)
	case 2:
		sql = "SELECT a, b FROM t UNION SELECT a FROM t"
		all = append(wide, narrow...)
	case 3:
		sql = "SELECT a FROM t UNION SELECT b FROM t UNION SELECT a, b FROM t"
		all = append(append(narrow, other...), wide...)
	}
	got, ok := runQuery(doc, sql)
	if !ok {
		return
	}
	verif.Assert(verif.Eq(got, refDistinct(all)), "distinct-on-all-columns")
	verif.Reach("end")
}
