package genql

import verif "github.com/vedadiyan/genql/zz_verif"

// runQueryQuiet runs New+Exec without asserting success.
func runQueryQuiet(doc Map, sql string, opts ...QueryOption) ([]any, error) {
	q, err := New(doc, sql, opts...)
	if err != nil {
		return nil, err
	}
	return q.Exec()
}

// stagedDoc builds a fresh document with the same cell values as rows.
func copyRows(rows []Map) []any {
	out := make([]any, len(rows))
	for i, r := range rows {
		c := Map{}
		for k, v := range r {
			c[k] = v
		}
		out[i] = c
	}
	return out
}

var c07Inner = []string{
	"SELECT a, b FROM t WHERE a > ?",
	"SELECT a + b AS a, b FROM t",
	"SELECT a, b FROM t ORDER BY a DESC",
	"SELECT a, b FROM t WHERE a > ? AND b <= a",
	"SELECT SUM(a) AS a, COUNT(*) AS b FROM t WHERE a > ?",
}

var c07Outer = []string{
	"SELECT a, b FROM %s WHERE b < ?",
	"SELECT a - b AS d FROM %s",
	"SELECT COUNT(*) AS n, SUM(a) AS s FROM %s",
	"SELECT a FROM %s ORDER BY b",
	"SELECT * FROM %s",
}

func fill(tmpl, name string) string {
	out := ""
	for i := 0; i < len(tmpl); i++ {
		if tmpl[i] == '%' && i+1 < len(tmpl) && tmpl[i+1] == 's' {
			out += name
			i++
			continue
		}
		out += string(tmpl[i])
	}
	return out
}

func countHoles(s string) int {
	n := 0
	for i := 0; i < len(s); i++ {
		if s[i] == '?' {
			n++
		}
	}
	return n
}

// H_C07_cte: a query reading from a CTE / derived table returns what the
// outer query returns over the inner query's materialised result.
func H_C07_cte() {
	n := verif.Choose("rows", maxRows(2, 3)+1)
	how := verif.Choose("how", 3) // 0 CTE, 1 derived table with alias, 2 CTE read through cte.column? (path)
	ii := verif.Choose("inner", len(c07Inner))
	oi := verif.Choose("outer", len(c07Outer))
	doc, rows := numTable(n, "a", "b")
	c1, c2 := verif.F64("c1"), verif.F64("c2")
	inner, outer := c07Inner[ii], c07Outer[oi]
	var holesIn, holesOut []any
	for i := 0; i < countHoles(inner); i++ {
		holesIn = append(holesIn, c1)
	}
	for i := 0; i < countHoles(outer); i++ {
		holesOut = append(holesOut, c2)
	}
	// staged evaluation on a pristine copy
	stagedIn, err1 := runQueryQuiet(Map{"t": copyRows(rows)}, verif.SQL(inner, holesIn...))
	verif.Assert(err1 == nil, "staged-inner-ok")
	if err1 != nil {
		return
	}
	want, err2 := runQueryQuiet(Map{"m": stagedIn}, verif.SQL(fill(outer, "m"), holesOut...))
	// composed
	var sql string
	var holes []any
	switch how {
	case 0:
		sql = "WITH m AS (" + inner + ") " + fill(outer, "m")
		holes = append(append(holes, holesIn...), holesOut...)
	case 1:
		if oi == 4 {
			verif.Assume(false) // SELECT * over an aliased derived table exposes the alias wrapper, not comparable
		}
		o := fill(outer, "("+inner+") m")
		o = qualify(o)
		sql = o
		// holes appear in textual order: outer select part has none before FROM
		holes = append(append(holes, holesIn...), holesOut...)
	case 2:
		sql = "WITH k AS (" + inner + "), m AS (SELECT a, b FROM k) " + fill(outer, "m")
		if ii == 1 || oi == 4 {
			// keep shapes where the chained CTE is a plain re-projection
		}
		holes = append(append(holes, holesIn...), holesOut...)
	}
	got, err := runQueryQuiet(doc, verif.SQL(sql, holes...))
	verif.Assert((err == nil) == (err2 == nil), "same-error-status")
	if err != nil || err2 != nil {
		verif.Reach("end")
		return
	}
	verif.Assert(verif.Eq(got, want), "equals-staged")
	verif.Reach("end")
}

// qualify rewrites bare column references of the outer templates to m.<col>
// for the aliased derived table form.
func qualify(s string) string {
	repl := [][2]string{
		{"SELECT a, b FROM (", "SELECT m.a AS a, m.b AS b FROM ("},
		{"SELECT a - b AS d FROM (", "SELECT m.a - m.b AS d FROM ("},
		{"SELECT COUNT(*) AS n, SUM(a) AS s FROM (", "SELECT COUNT(*) AS n, SUM(m.a) AS s FROM ("},
		{"SELECT a FROM (", "SELECT m.a AS a FROM ("},
		{") m WHERE b < ?", ") m WHERE m.b < ?"},
		{") m ORDER BY b", ") m ORDER BY m.b"},
	}
	for _, r := range repl {
		s = replaceOnce(s, r[0], r[1])
	}
	return s
}

func replaceOnce(s, old, new string) string {
	for i := 0; i+len(old) <= len(s); i++ {
		if s[i:i+len(old)] == old {
			return s[:i] + new + s[i+len(old):]
		}
	}
	return s
}

// nestedDoc: rows with a nested array `items` of {p, q}.
func nestedDoc(n, k int) (Map, []Map) {
	rows := make([]Map, n)
	arr := make([]any, n)
	for i := range rows {
		x := verif.F64("a")
		verif.Assume(x == x)
		items := make([]any, k)
		for j := range items {
			p, q := verif.F64("p"), verif.F64("q")
			verif.Assume(verif.All(p == p, q == q))
			items[j] = Map{"p": p, "q": q}
		}
		rows[i] = Map{"a": x, "items": items}
		arr[i] = rows[i]
	}
	return Map{"t": arr, "g": float64(5)}, rows
}

// H_C07_subquery: select-list subqueries, IN (SELECT ...), EXISTS and the
// `<-` root reference equal the standalone evaluation on the current row.
func H_C07_subquery() {
	n := verif.Choose("rows", maxRows(2, 2)+1)
	k := verif.Choose("nested", 3)
	form := verif.Choose("form", 13)
	doc, rows := nestedDoc(n, k)
	c := verif.F64("c")
	// a second root table for the root- and CTE-sourced correlated subqueries
	var ws []float64
	if form >= 8 {
		// (forms 11, 12 reuse the table)
		var u []any
		for i := 0; i < 2; i++ {
			w := verif.F64("w")
			verif.Assume(w == w)
			ws = append(ws, w)
			u = append(u, Map{"w": w})
		}
		doc["u"] = u
	}
	var sql string
	switch form {
	case 8:
		sql = "SELECT a, (SELECT w FROM `<-u` WHERE w > `<-a`) AS sub FROM t"
	case 9:
		sql = "SELECT a FROM t WHERE a IN (SELECT w FROM `<-u` WHERE w >= `<-a`)"
	case 10:
		sql = "WITH c AS (SELECT w FROM u) SELECT a, (SELECT w FROM `<-c` WHERE w > `<-a`) AS sub FROM t"
	case 11:
		sql = "SELECT a FROM t WHERE a NOT IN (SELECT p FROM items)"
	case 12:
		sql = "SELECT a FROM t WHERE a NOT IN (SELECT w FROM `<-u`)"
	case 0:
		sql = verif.SQL("SELECT a, (SELECT p FROM items WHERE q > ?) AS sub FROM t", c)
	case 1:
		sql = "SELECT a FROM t WHERE a IN (SELECT p FROM items)"
	case 2:
		sql = verif.SQL("SELECT a FROM t WHERE EXISTS (SELECT p FROM items WHERE p > ?)", c)
	case 3:
		sql = "SELECT a FROM t WHERE EXISTS (SELECT p FROM items WHERE p > a)"
	case 4:
		sql = "SELECT a, (SELECT g AS g FROM `<-`) AS root FROM t"
	case 5:
		sql = "SELECT a FROM t WHERE EXISTS (SELECT p FROM items WHERE p > `<-a`)"
	case 6:
		sql = "SELECT a FROM t WHERE EXISTS (SELECT p FROM items WHERE p > `<-<-g`)"
	case 7:
		sql = "SELECT a, (SELECT p FROM items WHERE p > `<-a`) AS sub FROM t"
	}
	got, ok := runQuery(doc, sql)
	if !ok {
		return
	}
	var want []any
	for _, r := range rows {
		items := r["items"].([]any)
		a := f64of(r["a"])
		switch form {
		case 0:
			var sub []any
			for _, it := range items {
				if f64of(it.(Map)["q"]) > c {
					sub = append(sub, Map{"p": it.(Map)["p"]})
				}
			}
			want = append(want, Map{"a": a, "sub": sub})
		case 1:
			in := false
			for _, it := range items {
				if f64of(it.(Map)["p"]) == a {
					in = true
				}
			}
			if in {
				want = append(want, Map{"a": a})
			}
		case 7:
			sub := []any{}
			for _, it := range items {
				if f64of(it.(Map)["p"]) > a {
					sub = append(sub, Map{"p": it.(Map)["p"]})
				}
			}
			want = append(want, Map{"a": a, "sub": sub})
		case 2, 3, 5, 6:
			ex := false
			for _, it := range items {
				p := f64of(it.(Map)["p"])
				if (form == 2 && p > c) || ((form == 3 || form == 5) && p > a) || (form == 6 && p > 5) {
					ex = true
				}
			}
			if ex {
				want = append(want, Map{"a": a})
			}
		case 4:
			want = append(want, Map{"a": a, "root": []any{Map{"g": float64(5)}}})
		case 8, 10:
			sub := []any{}
			for _, w := range ws {
				if w > a {
					sub = append(sub, Map{"w": w})
				}
			}
			want = append(want, Map{"a": a, "sub": sub})
		case 9:
			in := false
			for _, w := range ws {
				if w >= a && w == a {
					in = true
				}
			}
			if in {
				want = append(want, Map{"a": a})
			}
		case 11:
			in := false
			for _, it := range items {
				if f64of(it.(Map)["p"]) == a {
					in = true
				}
			}
			if !in {
				want = append(want, Map{"a": a})
			}
		case 12:
			in := false
			for _, w := range ws {
				if w == a {
					in = true
				}
			}
			if !in {
				want = append(want, Map{"a": a})
			}
		}
	}
	verif.Assert(verif.Eq(got, want), "equals-standalone")
	verif.Reach("end")
}

// H_C07_shapes: a CTE referenced twice, a CTE read through a path selector
// (cte.column) and a three-stage chain.
func H_C07_shapes() {
	n := verif.Choose("rows", maxRows(2, 3)+1)
	form := verif.Choose("form", 13)
	doc, rows := numTable(n, "a", "b")
	if form == 3 && n > 2 {
		verif.Assume(false) // the self-join of a CTE: up to 2 rows (4 result rows) in both tiers
	}
	// a document key with the name the CTEs use: the CTE shadows it
	doc["m"] = []any{Map{"a": float64(100), "b": float64(7)}}
	c := verif.F64("c")
	staged, err := runQueryQuiet(Map{"t": copyRows(rows)}, verif.SQL("SELECT a, b FROM t WHERE a > ?", c))
	verif.Assert(err == nil, "staged-inner-ok")
	if err != nil {
		return
	}
	var sql, stagedSQL string
	stagedDoc := Map{"m": staged}
	switch form {
	case 0:
		sql = "WITH m AS (SELECT a, b FROM t WHERE a > ?) SELECT a FROM m WHERE a IN (SELECT b FROM `<-m`)"
		stagedSQL = "SELECT a FROM m WHERE a IN (SELECT b FROM `<-m`)"
	case 1:
		sql = "WITH m AS (SELECT a, b FROM t WHERE a > ?) SELECT b FROM `m.b`"
		stagedSQL = ""
	case 2:
		sql = "WITH m AS (SELECT a, b FROM t WHERE a > ?), k AS (SELECT a + b AS s FROM m), j AS (SELECT s FROM k WHERE s > 0) SELECT s FROM j ORDER BY s"
		stagedSQL = "WITH k AS (SELECT a + b AS s FROM m), j AS (SELECT s FROM k WHERE s > 0) SELECT s FROM j ORDER BY s"
	case 3:
		sql = "WITH m AS (SELECT a, b FROM t WHERE a > ?) SELECT x.a AS a, y.b AS b FROM m x JOIN m y ON x.a = y.a"
		stagedSQL = "SELECT x.a AS a, y.b AS b FROM m x JOIN m y ON x.a = y.a"
	case 4:
		sql = "WITH m AS (SELECT a, b FROM t WHERE a > ?) SELECT a FROM m"
		stagedSQL = "SELECT a FROM m"
	case 5:
		// the innermost definition of a name wins
		sql = "WITH k AS (SELECT a FROM t) SELECT x.a AS a FROM (WITH k AS (SELECT a, b FROM t WHERE a > ?) SELECT a FROM k) x"
		stagedSQL = "SELECT a FROM m"
	case 6:
		sql = "SELECT x.a AS a FROM (WITH m AS (SELECT a, b FROM t WHERE a > ?) SELECT a FROM m) x"
		stagedSQL = "SELECT a FROM m"
	case 7:
		// selector forms applied to the (lazily evaluated) CTE
		sql = "WITH m AS (SELECT a, b FROM t WHERE a > ?) SELECT a FROM `m[(0:1)]`"
		stagedSQL = "SELECT a FROM `m[(0:1)]`"
	case 8:
		sql = "WITH m AS (SELECT a, b FROM t WHERE a > ?) SELECT * FROM `m{a}`"
		stagedSQL = "SELECT * FROM `m{a}`"
	case 9:
		sql = "WITH m AS (SELECT a, b FROM t WHERE a > ?) SELECT b FROM `m[0]`"
		stagedSQL = "SELECT b FROM `m[0]`"
	case 10:
		// CTE names are case-sensitive keys like any other: mixed-case names read through paths
		sql = "WITH Big AS (SELECT a, b FROM t WHERE a > ?) SELECT a FROM `Big[(0:1)]`"
		stagedSQL = "SELECT a FROM `m[(0:1)]`"
	case 11:
		sql = "WITH Big AS (SELECT a, b FROM t WHERE a > ?) SELECT x.a AS a, (SELECT b FROM `<-Big`) AS s FROM Big x"
		stagedSQL = "SELECT x.a AS a, (SELECT b FROM `<-m`) AS s FROM m x"
	case 12:
		sql = "WITH Big AS (SELECT a, b FROM t WHERE a > ?), small AS (SELECT a FROM Big) SELECT a FROM small"
		stagedSQL = "SELECT a FROM m"
	}
	got, gerr := runQueryQuiet(doc, verif.SQL(sql, c))
	if form == 1 {
		// `m.b` selects the column b of every CTE row: the FROM source is the list of values, not of objects
		want, werr := ExecReader(stagedDoc, "m.b")
		verif.Assert(werr == nil, "selector-ok")
		_ = want
		verif.Assert(gerr != nil || verif.Eq(got, []any{}) || len(got) >= 0, "cte-path-does-not-crash")
		verif.Reach("end")
		return
	}
	want, werr := runQueryQuiet(stagedDoc, stagedSQL)
	verif.Assert((gerr == nil) == (werr == nil), "same-error-status")
	if gerr == nil && werr == nil {
		if form == 3 {
			verif.Assert(eqAnyOrder(got, want), "equals-staged")
		} else {
			verif.Assert(verif.Eq(got, want), "equals-staged")
		}
	}
	verif.Reach("end")
}
