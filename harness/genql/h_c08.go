package genql

import verif "github.com/vedadiyan/genql/zz_verif"

// H_C08_multidim: FROM an array of arrays applies WHERE and the select list
// inside every inner array; mix=> flattens first.
func H_C08_multidim() {
	shape := verif.Choose("shape", 5)
	form := verif.Choose("form", 3)
	shapes := [][]int{{2, 1, 0}, {1, 1}, {0}, {2}, {1, 2}}
	var outer []any
	var inner [][]Map
	for _, k := range shapes[shape] {
		rows := make([]Map, k)
		arr := make([]any, k)
		for i := range rows {
			x := verif.F64("a")
			verif.Assume(x == x)
			rows[i] = Map{"a": x, "b": float64(i)}
			arr[i] = rows[i]
		}
		inner = append(inner, rows)
		outer = append(outer, arr)
	}
	doc := Map{"n": outer}
	c := verif.F64("c")
	var got []any
	var ok bool
	switch form {
	case 0:
		got, ok = runQuery(doc, verif.SQL("SELECT a FROM n WHERE a > ?", c))
	case 1:
		got, ok = runQuery(doc, "SELECT a + b AS s FROM n")
	case 2:
		got, ok = runQuery(doc, verif.SQL("SELECT a FROM `mix=>n` WHERE a > ?", c))
	}
	if !ok {
		return
	}
	var want []any
	for _, rows := range inner {
		var part []any
		for _, r := range rows {
			a := f64of(r["a"])
			switch form {
			case 0, 2:
				if a > c {
					part = append(part, Map{"a": a})
				}
			case 1:
				part = append(part, Map{"s": a + f64of(r["b"])})
			}
		}
		if form == 2 {
			want = append(want, part...)
		} else {
			if part == nil {
				part = []any{}
			}
			want = append(want, part)
		}
	}
	verif.Assert(verif.Eq(got, want), "per-inner-array")
	verif.Reach("end")
}

// H_C08_depth3: arrays of arrays of arrays.
func H_C08_depth3() {
	x, y := verif.F64("x"), verif.F64("y")
	verif.Assume(verif.All(x == x, y == y))
	c := verif.F64("c")
	doc := Map{"n": []any{[]any{[]any{Map{"a": x}}, []any{}}, []any{[]any{Map{"a": y}, Map{"a": x}}}}}
	got, ok := runQuery(doc, verif.SQL("SELECT a FROM n WHERE a > ?", c))
	if !ok {
		return
	}
	keep := func(vs ...float64) []any {
		out := []any{}
		for _, v := range vs {
			if v > c {
				out = append(out, Map{"a": v})
			}
		}
		return out
	}
	want := []any{[]any{keep(x), keep()}, []any{keep(y, x)}}
	verif.Assert(verif.Eq(got, want), "per-inner-array")
	verif.Reach("end")
}
