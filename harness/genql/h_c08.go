package genql

import verif "github.com/vedadiyan/genql/zz_verif"

// H_C08_multidim: FROM an array of arrays applies WHERE and the select list
// inside every inner array; mix=> flattens first.
func H_C08_multidim() {
	shape := verif.Choose("shape", 5)
	form := verif.Choose("form", 3)
	shapes := [][]int{{2, 1, 0}, {1, 1}, {0}, {2}, {1, 2}}
	var outer []any
	var inner [][]Map
	for _, k := range shapes[shape] {
		rows := make([]Map, k)
		arr := make([]any, k)
		for i := range rows {
			x := verif.F64("a")
			verif.Assume(x == x)
			rows[i] = Map{"a": x, "b": float64(i)}
			arr[i] = rows[i]
		}
		inner = append(inner, rows)
		outer = append(outer, arr)
	}
	doc := Map{"n": outer}
	c := verif.F64("c")
	var got []any
	var ok bool
	switch form {
	case 0:
		got, ok = runQuery(doc, verif.SQL("SELECT a FROM n WHERE a > ?", c))
	case 1:
		got, ok = runQuery(doc, "SELECT a + b AS s FROM n")
	case 2:
		got, ok = runQuery(doc, verif.SQL("SELECT a FROM `mix=>n` WHERE a > ?", c))
	}
	if !ok {
		return
	}
	var want []any
	for _, rows := range inner {
		var part []any
		for _, r := range rows {
			a := f64of(r["a"])
			switch form {
			case 0, 2:
				if a > c {
					part = append(part, Map{"a": a})
				}
			case 1:
				part = append(part, Map{"s": a + f64of(r["b"])})
			}
		}
		if form == 2 {
			want = append(want, part...)
		} else {
			if part == nil {
				part = []any{}
			}
			want = append(want, part)
		}
	}
	verif.Assert(verif.Eq(got, want), "per-inner-array")
	verif.Reach("end")
}

// H_C08_depth3: arrays of arrays of arrays.
func H_C08_depth3() {
	shape := verif.Choose("shape", 6)
	alias := verif.Choose("alias", 2) // SELECT a / SELECT a AS k
	mix := verif.Choose("mix", 2)
	x, y, z := verif.F64("x"), verif.F64("y"), verif.F64("z")
	verif.Assume(verif.All(x == x, y == y, z == z))
	c := verif.F64("c")
	r := func(v float64) any { return Map{"a": v} }
	var n []any
	switch shape {
	case 0:
		n = []any{[]any{[]any{r(x)}, []any{}}, []any{[]any{r(y), r(x)}}}
	case 1:
		// an empty array first, deeper arrays after it
		n = []any{[]any{}, []any{[]any{r(x), r(y)}, []any{}, []any{r(z)}}, []any{[]any{r(x)}}}
	case 2:
		// mixed depths: a flat array of rows first, arrays of arrays after it
		n = []any{[]any{r(x)}, []any{[]any{r(y)}, []any{r(z)}}}
	case 3:
		n = []any{[]any{[]any{}, []any{r(x)}}, []any{}, []any{[]any{r(y)}, []any{r(z), r(x)}}}
	case 4:
		// one level holds an inner array and, after it, a plain row
		n = []any{[]any{[]any{r(x), r(y)}, r(z)}, []any{[]any{r(x)}}}
	case 5:
		// the same with the row first
		n = []any{[]any{r(z), []any{r(x), r(y)}}, []any{[]any{r(x)}}}
	}
	from := "n"
	if mix == 1 {
		from = "`mix=>n`"
	}
	col, key := "a", "a"
	if alias == 1 {
		col, key = "a AS k", "k"
	}
	got, ok := runQuery(Map{"n": n}, verif.SQL("SELECT "+col+" FROM "+from+" WHERE a > ?", c))
	if !ok {
		return
	}
	// reference: the same nesting with every leaf array filtered; mix=> is the
	// concatenation of the filtered leaves
	var flat []any
	var walk func(v []any) []any
	walk = func(v []any) []any {
		out := []any{}
		leaf := true
		for _, e := range v {
			if _, isArr := e.([]any); isArr {
				leaf = false
			}
		}
		_ = leaf
		// arrays recurse, rows are filtered and projected where they stand
		for _, e := range v {
			if arr, isArr := e.([]any); isArr {
				out = append(out, walk(arr))
				continue
			}
			if a := f64of(e.(Map)["a"]); a > c {
				out = append(out, Map{key: a})
				flat = append(flat, Map{key: a})
			}
		}
		return out
	}
	nested := walk(n)
	if mix == 1 {
		verif.Assert(verif.Eq(got, flat), "mix-is-concatenation-of-inner-results")
	} else {
		verif.Assert(verif.Eq(got, nested), "per-inner-array")
	}
	verif.Reach("end")
}

// H_C08_options: a query over an array of arrays is the same query, with the
// same options (variables, constants, SETVAR effects), applied to every inner
// array: inner evaluation loses no part of the caller's context.
func H_C08_options() {
	form := verif.Choose("form", 6)
	shape := verif.Choose("shape", 3)
	shapes := [][]int{{2, 0, 1}, {1, 1}, {0, 2}}
	var outer []any
	var inner [][]any
	for _, k := range shapes[shape] {
		arr := make([]any, k)
		for i := range arr {
			x := verif.F64("a")
			verif.Assume(x == x)
			arr[i] = Map{"a": x}
		}
		inner = append(inner, arr)
		outer = append(outer, arr)
	}
	lo := verif.F64("lo")
	verif.Assume(lo == lo)
	var sql string
	mk := func() []QueryOption { return nil }
	switch form {
	case 0:
		sql = "SELECT a, GETVAR('lo') AS m FROM n WHERE a > GETVAR('lo')"
		mk = func() []QueryOption { return []QueryOption{WithVars(map[string]any{"lo": lo})} }
	case 1:
		sql = "SELECT a, CONSTANT('lo') AS m FROM n WHERE a > CONSTANT('lo')"
		mk = func() []QueryOption { return []QueryOption{WithConstants(map[string]any{"lo": lo})} }
	case 2:
		sql = "SELECT a, SETVAR('seen', a) FROM n WHERE a > GETVAR('lo')"
		varsA, varsB := map[string]any{"lo": lo}, map[string]any{"lo": lo}
		cur := varsA
		mk = func() []QueryOption { v := cur; cur = varsB; return []QueryOption{WithVars(v)} }
		defer func() { verif.Assert(verif.Eq(varsA, varsB), "same-variable-effects") }()
	case 4:
		// backward navigation to the document from rows of inner arrays
		sql = "SELECT a FROM n WHERE a > `<-lo`"
	case 5:
		sql = "SELECT a FROM n WHERE a IN (SELECT v FROM `<-ref`)"
	case 3:
		sql = "SELECT `a` AS \"v\" FROM n WHERE a > CONSTANT('lo')"
		mk = func() []QueryOption {
			return []QueryOption{PostgresEscapingDialect(), WithConstants(map[string]any{"lo": lo})}
		}
	}
	ref := []any{Map{"v": lo}, Map{"v": float64(3)}}
	got, ok := runQuery(Map{"n": outer, "lo": lo, "ref": ref}, sql, mk()...)
	if !ok {
		return
	}
	want := make([]any, 0, len(inner))
	for _, arr := range inner {
		part, ok := runQuery(Map{"n": arr, "lo": lo, "ref": ref}, sql, mk()...)
		if !ok {
			return
		}
		if part == nil {
			part = []any{}
		}
		want = append(want, part)
	}
	verif.Assert(verif.Eq(got, want), "same-as-per-inner-array")
	// and an absolute anchor for the first inner array
	var first []any
	for _, r := range inner[0] {
		a := f64of(r.(Map)["a"])
		if a > lo {
			switch form {
			case 0, 1:
				first = append(first, Map{"a": a, "m": lo})
			case 2:
				first = append(first, Map{"a": a})
			case 3:
				first = append(first, Map{"v": a})
			case 4:
				first = append(first, Map{"a": a})
			}
		}
	}
	if first == nil {
		first = []any{}
	}
	if form == 5 {
		first = []any{}
		for _, r := range inner[0] {
			if a := f64of(r.(Map)["a"]); a == lo || a == 3 {
				first = append(first, Map{"a": a})
			}
		}
	}
	verif.Assert(len(got) > 0 && verif.Eq(got[0], first), "first-inner-array")
	verif.Reach("end")
}

// H_C08_mix_windows: the inner arrays are windows of one backing array
// (overlapping, with spare capacity behind the first one), as a caller who
// chunks a slice produces them: a mix=> query, then the nested query on the
// same document - the second still sees every inner array as it was.
func H_C08_mix_windows() {
	shape := verif.Choose("shape", 3)
	order := verif.Choose("order", 2)
	rows := make([]any, 4)
	vals := make([]float64, 4)
	for i := range rows {
		x := verif.F64("a")
		verif.Assume(x == x)
		vals[i] = x
		rows[i] = Map{"a": x}
	}
	var n []any
	var idx [][]int
	switch shape {
	case 0:
		n, idx = []any{rows[0:2], rows[1:3]}, [][]int{{0, 1}, {1, 2}}
	case 1:
		n, idx = []any{rows[0:1], rows[2:4], rows[1:2]}, [][]int{{0}, {2, 3}, {1}}
	case 2:
		n, idx = []any{rows[0:0], rows[0:2], rows[3:4]}, [][]int{{}, {0, 1}, {3}}
	}
	doc := Map{"n": n}
	c := verif.F64("c")
	checkMix := func() {
		got, ok := runQuery(doc, verif.SQL("SELECT a FROM `mix=>n` WHERE a > ?", c))
		if !ok {
			return
		}
		var want []any
		for _, in := range idx {
			for _, i := range in {
				if vals[i] > c {
					want = append(want, Map{"a": vals[i]})
				}
			}
		}
		verif.Assert(verif.Eq(got, want), "mix-is-concatenation-of-inner-results")
	}
	checkNested := func() {
		got, ok := runQuery(doc, verif.SQL("SELECT a FROM n WHERE a > ?", c))
		if !ok {
			return
		}
		want := []any{}
		for _, in := range idx {
			part := []any{}
			for _, i := range in {
				if vals[i] > c {
					part = append(part, Map{"a": vals[i]})
				}
			}
			want = append(want, part)
		}
		verif.Assert(verif.Eq(got, want), "per-inner-array")
	}
	if order == 0 {
		checkMix()
		checkNested()
	} else {
		checkNested()
		checkMix()
	}
	checkMix()
	verif.Reach("end")
}
