package genql

import (
	"math"

	verif "github.com/vedadiyan/genql/zz_verif"
)

// tryReader calls f and reports a panic instead of propagating it.
func tryCall(f func() (any, error)) (v any, err error, panicked bool) {
	defer func() {
		if r := recover(); r != nil {
			panicked = true
		}
	}()
	v, err = f()
	return
}

func numArray(n int, label string) []any {
	out := make([]any, n)
	for i := range out {
		x := verif.F64(label)
		verif.Assume(x == x)
		out[i] = x
	}
	return out
}

// H_C09_index: [i] on an array of any length 0..3 with a symbolic index
// (as ReadIndex can produce it: i >= 0): the element, or an error when i is
// outside the array; never a panic.
func H_C09_index() {
	n := verif.Choose("len", 4)
	arr := numArray(n, "x")
	i := verif.IntRange("i", 0, math.MaxInt64)
	v, err, pan := tryCall(func() (any, error) { return SelectMany(arr, []*IndexSelector{NewIndex(i)}) })
	verif.Assert(!pan, "no-panic")
	if pan {
		return
	}
	if i < n {
		verif.Assert(err == nil && verif.Eq(v, arr[i]), "element")
	} else {
		verif.Assert(err != nil, "out-of-range-is-error")
	}
	verif.Reach("end")
}

// H_C09_range: [(m:n)] with symbolic bounds (>= -1, -1 = begin/end).
func H_C09_range() {
	n := verif.Choose("len", 4)
	arr := numArray(n, "x")
	lo := verif.IntRange("lo", -1, math.MaxInt64)
	hi := verif.IntRange("hi", -1, math.MaxInt64)
	v, err, pan := tryCall(func() (any, error) {
		return SelectMany(arr, []*IndexSelector{NewIndex([2]int{lo, hi})})
	})
	verif.Assert(!pan, "no-panic")
	if pan {
		return
	}
	b, e := lo, hi
	if b == -1 {
		b = 0
	}
	if e == -1 {
		e = n
	}
	if b <= e && e <= n {
		var want []any
		for k := b; k < e; k++ {
			want = append(want, arr[k])
		}
		verif.Assert(err == nil && verif.Eq(v, want), "slice")
	} else {
		verif.Assert(err != nil, "out-of-range-is-error")
	}
	verif.Reach("end")
}

// H_C09_dims: two dimensions over a ragged array of arrays: [i:j],
// [each:j], [i:each], keep=> variants.
func H_C09_dims() {
	form := verif.Choose("form", 5)
	n := verif.Choose("outer", 3)
	outer := make([]any, n)
	lens := make([]int, n)
	for k := range outer {
		lens[k] = verif.Choose("inner", 3)
		outer[k] = numArray(lens[k], "x")
	}
	i := verif.IntRange("i", 0, math.MaxInt64)
	j := verif.IntRange("j", 0, math.MaxInt64)
	var dims []*IndexSelector
	switch form {
	case 0, 3:
		dims = []*IndexSelector{NewIndex(i), NewIndex(j)}
	case 1, 4:
		dims = []*IndexSelector{NewIndex(-1), NewIndex(j)}
	case 2:
		dims = []*IndexSelector{NewIndex(i), NewIndex(-1)}
	}
	v, err, pan := tryCall(func() (any, error) {
		if form >= 3 {
			return SelectDimension(outer, dims)
		}
		return SelectMany(outer, dims)
	})
	verif.Assert(!pan, "no-panic")
	if pan {
		return
	}
	switch form {
	case 0, 3:
		if i < n && j < lens[i] {
			verif.Assert(err == nil && verif.Eq(v, outer[i].([]any)[j]), "element")
		} else {
			verif.Assert(err != nil, "out-of-range-is-error")
		}
	case 1, 4:
		inRange := true
		var want []any
		for k := range outer {
			if j < lens[k] {
				want = append(want, outer[k].([]any)[j])
			} else {
				inRange = false
			}
		}
		if inRange {
			verif.Assert(err == nil && verif.Eq(v, want), "each")
		} else {
			verif.Assert(err != nil, "out-of-range-is-error")
		}
	case 2:
		if i < n {
			verif.Assert(err == nil && verif.Eq(v, outer[i]), "each-inner")
		} else {
			verif.Assert(err != nil, "out-of-range-is-error")
		}
	}
	verif.Reach("end")
}

type selCase struct {
	sel  string
	want func(d *selDoc) (any, bool) // value, expect error
}

type selDoc struct {
	doc      Map
	x, y     float64
	arr      []any
	m        []any
	s        string
	tags     []any
	backings [][]any
}

func mkSelDoc() *selDoc {
	d := &selDoc{}
	d.x, d.y = verif.F64("x"), verif.F64("y")
	verif.Assume(verif.All(d.x == d.x, d.y == d.y, verif.NotNegZero(d.x), verif.NotNegZero(d.y)))
	d.s = verif.Str("s", 2, "")
	n := verif.Choose("arr", 3)
	d.arr = make([]any, n)
	for i := range d.arr {
		v := verif.F64("b")
		verif.Assume(v == v)
		d.arr[i] = Map{"b": v, "c": d.s}
	}
	d.m = []any{[]any{d.x}, []any{d.y, d.x}}
	d.tags = []any{d.s, "k", d.s, "z", "k", "q"}
	// arrays are windows of larger backing arrays with sentinel cells behind them
	spare := func(a []any) []any {
		b := make([]any, len(a), len(a)+2)
		copy(b, a)
		full := b[:len(a)+2]
		full[len(a)], full[len(a)+1] = "sentinel", "sentinel"
		d.backings = append(d.backings, full)
		return b
	}
	d.arr = spare(d.arr)
	d.tags = spare(d.tags)
	for i := range d.m {
		d.m[i] = spare(d.m[i].([]any))
	}
	d.m = spare(d.m)
	d.doc = Map{
		"tags": d.tags,
		"a":    Map{"b": d.x, "c": d.s, "n": nil},
		"arr":  d.arr,
		"m":    d.m,
		"k.k":  Map{"c": d.y},
		"num":  "12.5",
		"nest": Map{"b": []any{[]any{d.x, d.y}, []any{d.x}}, "w": []any{Map{"v": []any{[]any{d.y}, []any{d.x, d.y}}}}},
		"ab":   "without-space",
		"a b":  "with-space",
		"o":    Map{"p": Map{"q": d.x, "r": Map{"z": d.s}}, "w": d.y},
		"mm":   spare([]any{spare([]any{d.x, d.y, d.x}), spare([]any{d.x, d.x, d.y}), spare([]any{d.y, d.y, d.x})}),
	}
	return d
}

func bsOf(arr []any) []any {
	out := make([]any, len(arr))
	for i, e := range arr {
		out[i] = e.(Map)["b"]
	}
	return out
}

var selCases = []selCase{
	{"a.b", func(d *selDoc) (any, bool) { return d.x, false }},
	{"a.c", func(d *selDoc) (any, bool) { return d.s, false }},
	{"a.zz", func(d *selDoc) (any, bool) { return nil, false }},
	{"zz.b", func(d *selDoc) (any, bool) { return nil, false }},
	{"a.n.q", func(d *selDoc) (any, bool) { return nil, false }},
	{"arr.b", func(d *selDoc) (any, bool) { return bsOf(d.arr), false }},
	{"arr[0].b", func(d *selDoc) (any, bool) {
		if len(d.arr) < 1 {
			return nil, true
		}
		return d.arr[0].(Map)["b"], false
	}},
	{"arr[1]", func(d *selDoc) (any, bool) {
		if len(d.arr) < 2 {
			return nil, true
		}
		return d.arr[1], false
	}},
	{"arr[(0:1)].b", func(d *selDoc) (any, bool) {
		if len(d.arr) < 1 {
			return nil, true
		}
		return bsOf(d.arr[0:1]), false
	}},
	{"arr[(begin:end)]", func(d *selDoc) (any, bool) { return d.arr, false }},
	{"arr[(1:end)].b", func(d *selDoc) (any, bool) {
		if len(d.arr) < 1 {
			return nil, true
		}
		return bsOf(d.arr[1:]), false
	}},
	{"arr[each].b", func(d *selDoc) (any, bool) { return bsOf(d.arr), false }},
	{"m[each:0]", func(d *selDoc) (any, bool) { return []any{d.x, d.y}, false }},
	{"m[1:1]", func(d *selDoc) (any, bool) { return d.x, false }},
	{"m[0:1]", func(d *selDoc) (any, bool) { return nil, true }},
	{"m[keep=>each:0]", func(d *selDoc) (any, bool) { return []any{d.x, d.y}, false }},
	{"m[each:each]", func(d *selDoc) (any, bool) { return []any{d.x, d.y, d.x}, false }},
	{"m[keep=>each:each]", func(d *selDoc) (any, bool) { return d.m, false }},
	{"'k.k'.c", func(d *selDoc) (any, bool) { return d.y, false }},
	{"a{b, c}", func(d *selDoc) (any, bool) { return Map{"b": d.x, "c": d.s}, false }},
	{"a{c|string}", func(d *selDoc) (any, bool) { return Map{"c": d.s}, false }},
	{"arr[each].b::[0]", func(d *selDoc) (any, bool) {
		if len(d.arr) < 1 {
			return nil, true
		}
		return d.arr[0].(Map)["b"], false
	}},
	{"mix=>m", func(d *selDoc) (any, bool) { return []any{d.x, d.y, d.x}, false }},
	{"a.b.c", func(d *selDoc) (any, bool) { return nil, true }},
	{"a[0]", func(d *selDoc) (any, bool) { return nil, true }},
	{"nosuch=>a", func(d *selDoc) (any, bool) { return nil, true }},
	{"", func(d *selDoc) (any, bool) { return d.doc, false }},
	{"distinct=>tags", func(d *selDoc) (any, bool) {
		var out []any
		for _, t := range d.tags {
			dup := false
			for _, o := range out {
				if verif.Eq(o, t) {
					dup = true
				}
			}
			if !dup {
				out = append(out, t)
			}
		}
		return out, false
	}},
	{"distinct=>m[1]", func(d *selDoc) (any, bool) {
		if d.y == d.x {
			return []any{d.y}, false
		}
		return []any{d.y, d.x}, false
	}},
	{"mix=>a", func(d *selDoc) (any, bool) { return Map{"b": d.x, "c": d.s, "n": nil}, false }},
	{"mix=>o", func(d *selDoc) (any, bool) { return Map{"p_q": d.x, "p_r_z": d.s, "w": d.y}, false }},
	{"mix=>o.p", func(d *selDoc) (any, bool) { return Map{"q": d.x, "r_z": d.s}, false }},
	{"mix=>a.b", func(d *selDoc) (any, bool) { return nil, true }},
	// ranges below the inner length on the 3×3 matrix [[x y x] [x x y] [y y x]], kept, flattened and mixed
	{"mm[keep=>each:(0:2)]", func(d *selDoc) (any, bool) {
		return []any{[]any{d.x, d.y}, []any{d.x, d.x}, []any{d.y, d.y}}, false
	}},
	{"mm[each:(1:2)]", func(d *selDoc) (any, bool) { return []any{d.y, d.x, d.y}, false }},
	{"mix=>mm[keep=>each:(0:1)]", func(d *selDoc) (any, bool) { return []any{d.x, d.x, d.y}, false }},
	{"mix=>mm[keep=>each:(0:2)]", func(d *selDoc) (any, bool) { return []any{d.x, d.y, d.x, d.x, d.y, d.y}, false }},
	{"mm[keep=>each:(1:2)]::mix=>", func(d *selDoc) (any, bool) { return []any{d.y, d.x, d.y}, false }},
	{"mm[(0:2)]", func(d *selDoc) (any, bool) { return []any{[]any{d.x, d.y, d.x}, []any{d.x, d.x, d.y}}, false }},
	{"mix=>mm[(1:3)]", func(d *selDoc) (any, bool) { return []any{d.x, d.x, d.y, d.y, d.y, d.x}, false }},
	// `::` continuation and the plain selectors its stages spell
	{"a::b", func(d *selDoc) (any, bool) { return d.x, false }},
	{"b", func(d *selDoc) (any, bool) { return nil, false }},
	{"a::c", func(d *selDoc) (any, bool) { return d.s, false }},
	{"c", func(d *selDoc) (any, bool) { return nil, false }},
	{"o::p::q", func(d *selDoc) (any, bool) { return d.x, false }},
	{"p", func(d *selDoc) (any, bool) { return nil, false }},
	{"q", func(d *selDoc) (any, bool) { return nil, false }},
	// three `::` segments with a function in the middle and in the last one
	{"nest::mix=>b::[0]", func(d *selDoc) (any, bool) { return d.x, false }},
	{"nest::w[0]::mix=>v", func(d *selDoc) (any, bool) { return []any{d.y, d.x, d.y}, false }},
	{"nest::b::[1]::[0]", func(d *selDoc) (any, bool) { return d.x, false }},
	{"mix=>nest.b::[2]", func(d *selDoc) (any, bool) { return d.x, false }},
	// selector texts that differ only in spaces
	{"'ab'", func(d *selDoc) (any, bool) { return "without-space", false }},
	{"'a b'", func(d *selDoc) (any, bool) { return "with-space", false }},
	{"ab", func(d *selDoc) (any, bool) { return "without-space", false }},
	{"arr[1 ]", func(d *selDoc) (any, bool) {
		if len(d.arr) < 2 {
			return nil, true
		}
		return d.arr[1], false
	}},
	// a top-level function and a keep=> marker in one segment
	{"mix=>m[keep=>each:each]", func(d *selDoc) (any, bool) { return []any{d.x, d.y, d.x}, false }},
	{"distinct=>m[keep=>each:0]", func(d *selDoc) (any, bool) {
		if d.x == d.y {
			return []any{d.x}, false
		}
		return []any{d.x, d.y}, false
	}},
	{"nosuch=>m[keep=>each:0]", func(d *selDoc) (any, bool) { return nil, true }},
	{"mix=>m[keep=>each:each]::[0]", func(d *selDoc) (any, bool) { return d.x, false }},
	{"distinct=>a", func(d *selDoc) (any, bool) { return nil, true }},
	// segments the selector parser rejects, first and after valid segments (an error every time they are evaluated)
	{"arr[zz]", func(d *selDoc) (any, bool) { return nil, true }},
	{"a::[zz]", func(d *selDoc) (any, bool) { return nil, true }},
	{"arr[each].b::[(1:2:3)]", func(d *selDoc) (any, bool) { return nil, true }},
	{"o::p::[99999999999999999999]", func(d *selDoc) (any, bool) { return nil, true }},
	{"nest::b::[1]::[zz]", func(d *selDoc) (any, bool) { return nil, true }},
}

// H_C09_reader: ExecReader on documented selector forms over a document
// with symbolic leaves and a symbolic-length array: documented value, or an
// error for wrong shapes / out-of-range indexes; never a panic; the
// document is not modified.
func H_C09_reader() {
	ci := verif.Choose("selector", len(selCases))
	d := mkSelDoc()
	snap := verif.Snapshot(d.doc)
	v, err, pan := tryCall(func() (any, error) { return ExecReader(d.doc, selCases[ci].sel) })
	verif.Assert(!pan, "no-panic")
	if pan {
		return
	}
	want, wantErr := selCases[ci].want(d)
	if wantErr {
		verif.Assert(err != nil, "wrong-shape-is-error")
	} else {
		verif.Assert(err == nil, "no-error")
		if err == nil {
			verif.Assert(verif.Eq(v, want), "value")
		}
	}
	verif.Assert(verif.Unchanged(snap, d.doc), "document-unchanged")
	intact := true
	for _, full := range d.backings {
		if full[len(full)-1] != "sentinel" || full[len(full)-2] != "sentinel" {
			intact = false
		}
	}
	verif.Assert(intact, "spare-capacity-untouched")
	verif.Reach("end")
}

var reuseSelectors = []string{"arr[(1:end)]", "arr[(begin:end)]", "arr[(begin:1)]", "arr[(0:end)].b", "arr[each].b", "rag.v[(begin:end)]", "rag.v[(1:end)]", "arr[0]", "arr.b"}

// H_C09_reuse: the same selector text evaluated on several documents (and
// over ragged arrays inside one document) gives each document's own
// answer: parsed selectors are cached per text and must not keep state.
func H_C09_reuse() {
	si := verif.Choose("selector", len(reuseSelectors))
	sel := reuseSelectors[si]
	mk := func() (Map, []any, []any) {
		n := verif.Choose("arr", 4)
		arr := make([]any, n)
		for i := range arr {
			v := verif.F64("b")
			verif.Assume(v == v)
			arr[i] = Map{"b": v}
		}
		rag := make([]any, 2)
		var ragv []any
		for i := range rag {
			k := verif.Choose("rag", 3)
			v := numArray(k, "v")
			rag[i] = Map{"v": v}
			ragv = append(ragv, v)
		}
		return Map{"arr": arr, "rag": rag}, arr, ragv
	}
	want := func(arr []any, ragv []any) (any, bool) {
		switch si {
		case 0:
			if len(arr) < 1 {
				return nil, true
			}
			return arr[1:], false
		case 1:
			return arr, false
		case 2:
			if len(arr) < 1 {
				return nil, true
			}
			return arr[:1], false
		case 3, 4, 8:
			return bsOf(arr), false
		case 5:
			return ragv, false
		case 6:
			out := make([]any, len(ragv))
			for i, v := range ragv {
				if len(v.([]any)) < 1 {
					return nil, true
				}
				out[i] = v.([]any)[1:]
			}
			return out, false
		default:
			if len(arr) < 1 {
				return nil, true
			}
			return arr[0], false
		}
	}
	for round := 0; round < 2; round++ {
		doc, arr, ragv := mk()
		v, err, pan := tryCall(func() (any, error) { return ExecReader(doc, sel) })
		verif.Assert(!pan, "no-panic")
		if pan {
			return
		}
		w, wantErr := want(arr, ragv)
		if wantErr {
			verif.Assert(err != nil, "wrong-shape-is-error")
		} else {
			verif.Assert(err == nil, "no-error")
			if err == nil {
				verif.Assert(verif.Eq(v, w), "value")
			}
		}
	}
	verif.Reach("end")
}

// H_C09_pipes: {k|number} parses decimal text (and only that), {k|string}
// renders integers without a fraction and other numbers with six decimals.
func H_C09_pipes() {
	form := verif.Choose("form", 2)
	if form == 0 {
		txt := verif.Str("txt", 3+verif.Tier(), "0189.x-")
		doc := Map{"o": Map{"v": txt, "w": float64(2)}}
		v, err, pan := tryCall(func() (any, error) { return ExecReader(doc, "o{v|number, w}") })
		verif.Assert(!pan, "no-panic")
		if pan {
			return
		}
		want, perr := parseDecimal(txt)
		if perr {
			verif.Assert(err != nil, "non-decimal-is-error")
		} else {
			verif.Assert(err == nil, "no-error")
			if err == nil {
				verif.Assert(verif.Eq(v, Map{"v": want, "w": float64(2)}), "value")
			}
		}
		verif.Reach("end")
		return
	}
	k := verif.IntRange("k", -6, 9)
	x := float64(k) / 2
	doc := Map{"o": Map{"v": x, "s": "t"}}
	v, err, pan := tryCall(func() (any, error) { return ExecReader(doc, "o{v|string, s|string}") })
	verif.Assert(!pan && err == nil, "no-error")
	if pan || err != nil {
		return
	}
	var text string
	if k%2 == 0 {
		text = itoaG(k / 2)
	} else {
		h := k / 2 // truncates toward zero
		if k < 0 && h == 0 {
			text = "-0.500000"
		} else {
			text = itoaG(h) + ".500000"
		}
	}
	verif.Assert(verif.Eq(v, Map{"v": text, "s": "t"}), "value")
	verif.Reach("end")
}

// parseDecimal is the reference for {k|number}: Go's decimal float syntax
// restricted to the harness alphabet (digits, '.', '-', and the letter x
// which never belongs to a decimal number).
func parseDecimal(s string) (float64, bool) {
	i := 0
	neg := false
	if i < len(s) && (s[i] == '-' || s[i] == '+') {
		neg = s[i] == '-'
		i++
	}
	digits, dot, frac := 0, false, 0
	mant := float64(0)
	for ; i < len(s); i++ {
		c := s[i]
		switch {
		case c >= '0' && c <= '9':
			mant = mant*10 + float64(c-'0')
			digits++
			if dot {
				frac++
			}
		case c == '.' && !dot:
			dot = true
		default:
			return 0, true
		}
	}
	if digits == 0 {
		return 0, true
	}
	pow := float64(1)
	for ; frac > 0; frac-- {
		pow *= 10
	}
	mant /= pow // both exact: one correctly rounded division
	if neg {
		mant = -1 * mant
	}
	return mant, false
}

func itoaG(n int) string {
	if n == 0 {
		return "0"
	}
	neg := n < 0
	if neg {
		n = -n
	}
	s := ""
	for n > 0 {
		s = string(rune('0'+n%10)) + s
		n /= 10
	}
	if neg {
		s = "-" + s
	}
	return s
}

// H_C09_sequence: a selector's result does not depend on which selectors
// were evaluated before it (parsed selectors are cached by text, process
// wide): every ordered pair of the listed selectors on one document.
func H_C09_sequence() {
	c1 := verif.Choose("first", len(selCases))
	c2 := verif.Choose("second", len(selCases))
	d := mkSelDoc()
	tryCall(func() (any, error) { return ExecReader(d.doc, selCases[c1].sel) })
	v, err, pan := tryCall(func() (any, error) { return ExecReader(d.doc, selCases[c2].sel) })
	verif.Assert(!pan, "no-panic")
	if pan {
		return
	}
	want, wantErr := selCases[c2].want(d)
	if wantErr {
		verif.Assert(err != nil, "wrong-shape-is-error")
	} else {
		verif.Assert(err == nil && verif.Eq(v, want), "value-independent-of-history")
	}
	verif.Reach("end")
}
