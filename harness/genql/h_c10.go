package genql

import verif "github.com/vedadiyan/genql/zz_verif"

// newExec runs New+Exec; any outcome other than "returned" is a violation
// (a panic escaping the API fails the harness itself).
func newExec(doc Map, sql string, opts ...QueryOption) ([]any, error) {
	q, err := New(doc, sql, opts...)
	if err != nil {
		return nil, err
	}
	return q.Exec()
}

var c10Queries = []string{
	"SELECT * FROM t NATURAL JOIN u",
	"SELECT a FROM t UNION SELECT a FROM u UNION SELECT a FROM t",
	"SELECT a FROM t UNION ALL SELECT a FROM u UNION ALL SELECT a FROM t",
	"WITH c AS (SELECT a FROM c) SELECT a FROM c",
	"WITH c AS (SELECT a FROM d), d AS (SELECT a FROM c) SELECT a FROM c",
	"SELECT a FROM `t[5]`",
	"SELECT a FROM `t[(0:9)]`",
	"SELECT a FROM `a[0]`",
	"SELECT a FROM t WHERE a IN (1, 2",
	"SELECT [a, [1, 2] FROM t",
	"SELECT a] FROM t",
	"SELECT DISTINCT (SELECT a FROM u) AS s, * FROM t",
	"SELECT * FROM t x PARALLEL JOIN u y ON x.a = y.a.b",
	"SELECT * FROM t x PARALLEL JOIN u y ON x.a < y.zz.q",
	"SELECT SUBSTRING(s, a, 99) AS x FROM t",
	"SELECT ELEMENTAT(arr, a) AS x FROM t",
	"SELECT a FROM t ORDER BY o",
	"SELECT a FROM t LIMIT 99999999999999999999",
	"SELECT a DIV 0 AS x FROM t",
	"SELECT a << 70 AS x FROM t",
	"SELECT a FROM t GROUP BY a + 1",
	"SELECT FUSE(a) FROM t",
	"SELECT a FROM t WHERE o > 1",
	"SELECT a FROM t WHERE s LIKE '('",
	"SELECT a FROM missing",
	"SELECT a FROM t JOIN u",
	"INSERT INTO t VALUES (1)",
	"SELECT a FROM t, u",
	"SELECT * FROM t x JOIN u y USING (a)",
	"SELECT (SELECT a FROM `<-`) AS r FROM t",
	"SELECT a FROM t WHERE EXISTS (SELECT a FROM s)",
	"SELECT COUNT(*) FROM t GROUP BY zz HAVING SUM(s) > 1",
	"SELECT * FROM t x PARALLEL JOIN u y ON vfail(x.a) < y.a",
	"SELECT * FROM t x PARALLEL JOIN u y ON vpanic(x.a) < y.a",
	"SELECT * FROM t x PARALLEL HASH_JOIN u y ON x.o = y.a",
	"SELECT * FROM t x PARALLEL LEFT JOIN u y ON x.a = y.a AND vfail(1) = 1",
	"SELECT * FROM t x PARALLEL JOIN t y ON x.a <= y.a AND x.s",
	"SELECT * FROM t x PARALLEL RIGHT JOIN t y ON x.a <= y.a AND vfailb()",
	// (from here: appended after the three-worker block, see H_C10_queries2)
}

// more unusual-but-parseable queries, evaluated like c10Queries
var c10Queries2 = []string{
	"SELECT * FROM t x LEFT JOIN u y ON x.a = y.a INTO z",
	"SELECT * FROM t x RIGHT JOIN u y ON x.a = y.a INTO z",
	"SELECT * FROM t x JOIN u y ON x.a = y.a INTO z",
	"SELECT * FROM t x LEFT JOIN u y ON x.a < y.a INTO z",
	"SELECT * FROM t x PARALLEL LEFT JOIN u y ON x.a = y.a INTO z",
	"SELECT * FROM t x LEFT HASH_JOIN u y ON x.a = y.a INTO z",
	"SELECT AWAIT() FROM t",
	"SELECT AWAIT(a, s) AS v FROM t",
	"SELECT AWAIT(ASYNC.vfail(a)) AS v FROM t",
	"SELECT a FROM t WHERE AWAIT()",
	"SELECT a FROM dual",
	"SELECT 1 + 1 AS two",
	"SELECT a FROM t HAVING a > 1",
	"SELECT a FROM t GROUP BY zz HAVING SUM(s) > 1",
	"SELECT a FROM t ORDER BY zz.q DESC, s",
	"SELECT a FROM t LIMIT 1 OFFSET 99999999999999999999",
	"SELECT t.* FROM t",
	"SELECT x.* FROM t x JOIN u y ON x.a = y.a",
	"SELECT a FROM `t{a}`",
	"SELECT a FROM `t{a|number}`",
	"SELECT a FROM `t.arr[0][0]`",
	"SELECT a FROM `mix=>a`",
	"SELECT a FROM `distinct=>a.b`",
	"SELECT a FROM `nosuch=>t`",
	"SELECT CASE a WHEN s THEN o END AS v FROM t",
	"SELECT a FROM t WHERE s LIKE o",
	"SELECT a FROM t WHERE a BETWEEN s AND o",
	"SELECT a FROM t WHERE o IN (SELECT a, s FROM u)",
	"SELECT a FROM t WHERE (a, s) IN ((1, 'x'))",
	"SELECT a FROM t WHERE EXISTS (SELECT * FROM `<-zz`)",
	"SELECT (SELECT a FROM `<-<-<-t`) AS v FROM t",
	"SELECT -s AS v, ~o AS w, !arr AS z FROM t",
	// lazily evaluated CTEs under every selector form, and failing ones
	"WITH c AS (SELECT a FROM t) SELECT * FROM `c[0]`",
	"WITH c AS (SELECT a FROM t) SELECT * FROM `c[(0:1)]`",
	"WITH c AS (SELECT a FROM t) SELECT * FROM `keep=>c[0]`",
	"WITH c AS (SELECT a FROM t) SELECT * FROM `c{a}`",
	"WITH c AS (SELECT a, arr FROM t) SELECT * FROM `c.arr`",
	"WITH c AS (SELECT vfail(a) AS a FROM t) SELECT * FROM c",
	"WITH c AS (SELECT vfail(a) AS a FROM t) SELECT * FROM `c[0]`",
	"WITH c AS (SELECT vfail(a) AS a FROM t) SELECT * FROM `keep=>c[0]`",
	"WITH c AS (SELECT vfail(a) AS a FROM t) SELECT * FROM `c{a}`",
	"WITH c AS (SELECT vfail(a) AS a FROM t) SELECT a, (SELECT a FROM c) AS v FROM t",
	"WITH c AS (SELECT vfail(a) AS a FROM t) SELECT a FROM t WHERE a IN (SELECT a FROM c)",
	// SUBSTRING forms
	"SELECT SUBSTRING(s, 1, 1) AS v FROM t",
	"SELECT SUBSTRING(s FROM 2) AS v FROM t",
	"SELECT SUBSTRING(s, -1) AS v FROM t",
	"SELECT SUBSTRING(zz, 1, 1) AS v FROM t",
	"SELECT SUBSTRING(a, 1) AS v FROM t",
	"SELECT SUBSTRING(s, s, s) AS v FROM t",
	"SELECT SUBSTRING(s, 0, -5) AS v FROM t",
	"SELECT SUBSTRING(s, 1, a) AS v FROM t",
	// connectives and truth tests over NULL and non-boolean operands
	"SELECT a FROM t WHERE zz AND a > 1",
	"SELECT a FROM t WHERE a > 1 OR zz",
	"SELECT a FROM t WHERE NOT zz",
	"SELECT a FROM t WHERE s AND a",
	"SELECT a FROM t WHERE NOT s",
	"SELECT a FROM t WHERE s IS TRUE",
	"SELECT a FROM t WHERE o IS NOT FALSE",
	// operators the evaluator does not implement, odd IN right-hand sides
	"SELECT a FROM t WHERE a <=> 1",
	"SELECT a FROM t WHERE s REGEXP 'x'",
	"SELECT a FROM t WHERE s NOT REGEXP 'x'",
	"SELECT a FROM t WHERE a IN (zz)",
	"SELECT a FROM t WHERE a IN (SELECT zz FROM u)",
	"SELECT a FROM t WHERE s NOT LIKE '('",
	"SELECT a FROM t WHERE a IN (a + 1, a * 2, -a)",
	// literal kinds and unary operators outside the implemented set
	"SELECT 0x1F AS v FROM t",
	"SELECT x'4D' AS v FROM t",
	"SELECT b'01' AS v FROM t",
	"SELECT 1e999 AS v FROM t",
	"SELECT +a AS v FROM t",
	"SELECT BINARY s AS v FROM t",
	"SELECT -zz AS v, ~zz AS w FROM t",
	"SELECT a FROM t WHERE a = TRUE OR s = NULL",
	"SELECT a, @x AS v FROM t",
	"SELECT a COLLATE utf8_bin AS v FROM t",
	"SELECT CAST(a AS CHAR) AS v, CONVERT(s, SIGNED) AS w FROM t",
	"SELECT a FROM t WHERE a = ANY (SELECT a FROM u)",
	"SELECT INTERVAL 1 DAY + a AS v FROM t",
	// ranges and indexes outside the array, in FROM (resolved while the query is built)
	"SELECT a FROM `t[(5:end)]`",
	"SELECT a FROM `t[(begin:9)]`",
	"SELECT a FROM `t[(2:1)]`",
	"SELECT a FROM `t[(3:3)]`",
	"SELECT a FROM `t[9:0]`",
	"SELECT a FROM `t.arr[each:5]`",
	"SELECT a FROM `t[keep=>7]`",
	"SELECT a, `arr[(4:end)]` AS v FROM t",
	"SELECT a FROM t WHERE `arr[3]` > 1",
	// selectors the selector parser rejects (in FROM and in the select list)
	"SELECT a FROM `t[x]`",
	"SELECT a FROM `t[99999999999999999999]`",
	"SELECT a FROM `t[(1:2:3)]`",
	"SELECT a, `arr[x]` AS v FROM t",
	"SELECT a FROM `t::arr[x]`",
	// functions that need an option the caller did not pass, in goroutine-running positions
	"SELECT SETVAR('k', a) FROM t",
	"SELECT GETVAR('k') AS v, CONSTANT('k') AS c FROM t",
	"SELECT * FROM t x PARALLEL JOIN u y ON x.a >= y.a AND SETVAR('k', 1) IS NULL",
	"SELECT * FROM t x PARALLEL LEFT JOIN u y ON x.a >= y.a AND GETVAR('k') IS NULL",
	"SELECT a, ASYNC.vfail(SETVAR('k', a)) FROM t",
	// the navigation marker read as a value, inside subqueries over dual
	"SELECT a, (SELECT `<-` = 1 FROM dual) AS f FROM t",
	"SELECT a FROM t WHERE EXISTS (SELECT 1 FROM dual WHERE `<-` LIKE 'x')",
	"SELECT a, (SELECT CONCAT(`<-`, 'x') AS c FROM dual) AS f FROM t",
	"SELECT a, (SELECT (SELECT `<-<-` IS NULL FROM dual) AS g FROM dual) AS f FROM t",
	"SELECT DISTINCT a, `<-` AS up FROM t WHERE a IN (SELECT a FROM `<-t`)",
	// sources that are not arrays of objects
	"SELECT * FROM a",
	"SELECT * FROM `a.b`",
	"SELECT * FROM nosuch",
	"SELECT * FROM nosuch x JOIN t y ON x.a = y.a",
	"SELECT * FROM t x JOIN nosuch y ON x.a = y.a",
	"SELECT * FROM `t.arr` x JOIN t y ON x.a = y.a",
	// a CTE referring to itself from a subquery expression (through the navigation marker)
	"WITH c AS (SELECT a, (SELECT COUNT(*) AS n FROM `<-`.c) AS n FROM t) SELECT * FROM c",
	"WITH c AS (SELECT a FROM t WHERE a IN (SELECT a FROM `<-`.c)) SELECT * FROM c",
	"WITH c AS (SELECT a FROM t WHERE EXISTS (SELECT a FROM `<-`.d)), d AS (SELECT a FROM t WHERE EXISTS (SELECT a FROM `<-`.c)) SELECT * FROM c",
	// expressions evaluated by post processors (AWAIT reads its arguments after the row loop)
	"SELECT AWAIT(ELEMENTAT(arr, -1)) AS x FROM t",
	"SELECT AWAIT(ELEMENTAT(arr, 7)) AS x, AWAIT(a DIV 0) AS y FROM t",
}

// H_C10_queries2: the second list under the option combinations.
func H_C10_queries2() {
	qi := verif.Choose("query", len(c10Queries2))
	oi := verif.Choose("options", 4)
	a := float64(verif.IntRange("a", -2, 9)) / 2
	doc := Map{
		"t": []any{Map{"a": a, "s": verif.Str("s", 1, "a%"), "o": Map{"k": a}, "arr": []any{a}}, Map{"a": float64(2), "s": "x", "o": nil, "arr": []any{}}},
		"u": []any{Map{"a": float64(2)}, Map{"a": Map{"b": a}}},
		"a": Map{"b": a},
	}
	if oi != 0 && hasAny(c10Queries2[qi], "PARALLEL") {
		verif.Assume(false) // goroutine-running queries: one option set
	}
	var opts []QueryOption
	if oi&1 != 0 {
		opts = append(opts, Wrapped())
	}
	if oi&2 != 0 {
		opts = append(opts, PostgresEscapingDialect(), IdomaticArrays())
	}
	RegisterFunction("vfail", failingFunc)
	verif.Opt("schedules", 1)
	verif.Opt("preempt", 1)
	verif.Opt("recursion-is-violation", 1)
	newExec(doc, c10Queries2[qi], opts...)
	verif.Drain()
	verif.Reach("end")
}

var c10Funcs = []string{"sum", "avg", "min", "max", "count", "concat", "first", "last", "elementat", "defaultkey", "changetype", "unwind", "if", "fuse", "daterange", "constant", "getvar", "setvar", "raise_when", "raise", "report_when", "report", "array", "to_lower", "to_upper", "await"}
var c10Args = []string{"", "a", "s", "nul", "arr", "o", "a, a", "s, a", "arr, s", "nul, nul", "a, s, arr", "s, s, s", "a, a, a, a", "*"}

// H_C10_arity: every built-in function called with every short argument
// list of every kind (wrong counts, wrong types, NULLs), plain and under the
// goroutine qualifiers: an error or a result, never a panic or a hang.
func H_C10_arity() {
	fi := verif.Choose("func", len(c10Funcs))
	ai := verif.Choose("args", len(c10Args))
	qual := []string{"", "ASYNC.", "SPIN.", "ONCE.", "SPINASYNC.", "GLOBAL.", "SCOPED."}[verif.Choose("qualifier", 7)]
	pos := verif.Choose("position", 2)
	a := float64(verif.IntRange("a", -1, 2))
	doc := Map{"t": []any{Map{"a": a, "s": "x", "nul": nil, "arr": []any{a, "q"}, "o": Map{"k": a}}, Map{"a": float64(1), "s": "", "nul": nil, "arr": []any{}, "o": nil}}}
	verif.Opt("schedules", 1)
	verif.Opt("preempt", 1)
	call := qual + c10Funcs[fi] + "(" + c10Args[ai] + ")"
	sql := "SELECT " + call + " AS v FROM t"
	if pos == 1 {
		sql = "SELECT a FROM t WHERE " + call
	}
	newExec(doc, sql, WithVars(map[string]any{}), WithConstants(map[string]any{"x": a}), UnReportedErrors(func(error) {}))
	verif.Drain()
	verif.Reach("end")
}

// H_C10_queries: malformed / unsupported / failing queries under every
// option combination return control with a result or an error.
func H_C10_queries() {
	qi := verif.Choose("query", len(c10Queries))
	oi := verif.Choose("options", 8)
	// small value domains: several of these queries format their operands
	a := float64(verif.IntRange("a", -2, 9)) / 2
	doc := Map{
		"t": []any{Map{"a": a, "s": verif.Str("s", 2, "a(%"), "o": Map{"k": a}, "arr": []any{a}}, Map{"a": float64(2), "s": "x", "o": nil, "arr": []any{}}},
		"u": []any{Map{"a": float64(2)}, Map{"a": Map{"b": a}}},
		"a": Map{"b": a},
	}
	if qi >= 32 {
		// the PARALLEL joins with failing conditions get three outer keys (three workers)
		doc["t"] = append(doc["t"].([]any), Map{"a": float64(11), "s": "y", "o": nil, "arr": []any{}})
		if oi != 0 && oi != 7 {
			verif.Assume(false)
		}
	}
	var opts []QueryOption
	if oi&1 != 0 {
		opts = append(opts, Wrapped())
	}
	if oi&2 != 0 {
		opts = append(opts, PostgresEscapingDialect())
	}
	if oi&4 != 0 {
		opts = append(opts, IdomaticArrays())
	}
	RegisterFunction("vfail", failingFunc)
	RegisterFunction("vfailb", failingFunc)
	RegisterFunction("vpanic", panickingFunc)
	verif.Opt("schedules", 1)
	verif.Opt("preempt", 1)
	verif.Opt("recursion-is-violation", 1)
	newExec(doc, c10Queries[qi], opts...)
	verif.Drain()
	verif.Reach("end")
}

func failingFunc(q *Query, cur Map, o *FunctionOptions, args []any) (any, error) {
	return nil, EXPECTATION_FAILED
}

func panickingFunc(q *Query, cur Map, o *FunctionOptions, args []any) (any, error) {
	var m map[string]any
	m["x"] = 1
	return nil, nil
}

// stringPanickingFunc panics with a value that is not an error.
func stringPanickingFunc(q *Query, cur Map, o *FunctionOptions, args []any) (any, error) {
	panic("boom")
}

// H_C10_async: ASYNC / SPIN / SPINASYNC calls of functions that fail or
// panic must not crash the process or deadlock.
func H_C10_async() {
	fi := verif.Choose("func", 3)
	mode := verif.Choose("mode", 6)
	pos := verif.Choose("position", 3)
	n := verif.Choose("rows", 3)
	RegisterFunction("vfail", failingFunc)
	RegisterFunction("vpanic", panickingFunc)
	RegisterFunction("vpanics", stringPanickingFunc)
	doc, _ := numTable(n, "a")
	name := []string{"vfail", "vpanic", "vpanics"}[fi]
	qual := []string{"", "ASYNC.", "SPIN.", "SPINASYNC.", "ONCE.", "SCOPED."}[mode]
	verif.Opt("schedules", 1)
	verif.Opt("preempt", 1)
	sql := "SELECT a, " + qual + name + "(a) AS v FROM t"
	switch pos {
	case 1:
		sql = "SELECT a FROM t WHERE " + qual + name + "(a)"
	case 2:
		sql = "SELECT x.a FROM (SELECT a, " + qual + name + "(a) AS v FROM t) x ORDER BY x.v"
	}
	newExec(doc, sql)
	verif.Drain()
	verif.Reach("end")
}

// H_C10_scan: the dialect preprocessors never panic on any byte string.
func H_C10_scan() {
	which := verif.Choose("fn", 3)
	maxLen := 5
	if verif.Tier() == 1 {
		maxLen = 7
	}
	s := verif.Str("s", maxLen, "\"'`\\[]a\xc3")
	_, _, pan := tryCall(func() (any, error) {
		switch which {
		case 0:
			return DoubleQuotesToBackTick(s)
		case 1:
			return FindArrayIndex(s)
		default:
			return FixIdiomaticArray(s)
		}
	})
	verif.Assert(!pan, "no-panic")
	verif.Reach("end")
}

// H_C10_mutants: single-character mutations (replace by a structural
// character, or delete) at every position of the listed queries: whatever
// the parser still accepts is built and executed; never a panic or a hang.
func H_C10_mutants() {
	step := 4 - 3*verif.Tier() // quick tier: every fourth template
	var pool []string
	for i, q := range c10Queries2 {
		if i%step == 0 {
			pool = append(pool, q)
		}
	}
	for i, q := range c10Queries {
		if i%step == 1%step {
			pool = append(pool, q)
		}
	}
	qi := verif.Choose("query", len(pool))
	q := pool[qi]
	pos := verif.Choose("position", 96)
	if pos >= len(q) {
		verif.Assume(false)
	}
	repl := []string{"", "(", ")", "'", "`", ",", " ", "0", "*", "."}[verif.Choose("replacement", 10)]
	mut := q[:pos] + repl + q[pos+1:]
	a := float64(1)
	doc := Map{
		"t": []any{Map{"a": a, "s": "a%", "o": Map{"k": a}, "arr": []any{a}}, Map{"a": float64(2), "s": "x", "o": nil, "arr": []any{}}},
		"u": []any{Map{"a": float64(2)}, Map{"a": Map{"b": a}}},
		"a": Map{"b": a},
	}
	RegisterFunction("vfail", failingFunc)
	RegisterFunction("vfailb", failingFunc)
	RegisterFunction("vpanic", panickingFunc)
	verif.Opt("recursion-is-violation", 1)
	newExec(doc, mut)
	verif.Drain()
	verif.Reach("end")
}

// H_C10_reexec: a query object executed twice (and a second query on the
// same options after a failed one) returns both times: a failure leaves no
// lock held and no goroutine waiting.
func H_C10_reexec() {
	qi := verif.Choose("query", len(c10Queries2))
	withVars := verif.Choose("with-vars", 2)
	a := float64(1)
	doc := Map{
		"t": []any{Map{"a": a, "s": "a%", "o": Map{"k": a}, "arr": []any{a}}, Map{"a": float64(2), "s": "x", "o": nil, "arr": []any{}}},
		"u": []any{Map{"a": float64(2)}, Map{"a": Map{"b": a}}},
		"a": Map{"b": a},
	}
	RegisterFunction("vfail", failingFunc)
	verif.Opt("recursion-is-violation", 1) // unbounded recursion is a stack overflow, not an exploration bound
	// one schedule: the subject is what a failed execution leaves behind, not the interleaving
	var opts []QueryOption
	if withVars == 1 {
		opts = append(opts, WithVars(map[string]any{}))
	}
	q, err := New(doc, c10Queries2[qi], opts...)
	if err == nil {
		q.Exec()
		verif.Drain()
		q.Exec()
		verif.Drain()
		q.Exec()
	}
	verif.Drain()
	// whatever the first query did - rejected while it was built, failed, or
	// succeeded - an ordinary query afterwards returns its rows
	q2, err2 := New(doc, "SELECT a FROM t")
	verif.Assert(err2 == nil, "later-query-is-built")
	if err2 == nil {
		res, err3 := q2.Exec()
		verif.Assert(err3 == nil && len(res) == 2, "later-query-returns")
	}
	verif.Drain()
	verif.Reach("end")
}

// H_C10_scope_cycle: the navigation scope selected as a value inside a CTE
// body, the CTE rows then formatted by DISTINCT (the scope reaches the CTE's
// own result through the query's data: a cycle).
func H_C10_scope_cycle() {
	form := verif.Choose("form", 3)
	sql := []string{
		"WITH c AS (SELECT (SELECT `<-` AS up FROM dual) AS y FROM t) SELECT DISTINCT * FROM c",
		"WITH c AS (SELECT `<-` AS up FROM t) SELECT DISTINCT * FROM c",
		"WITH c AS (SELECT (SELECT `<-` AS up FROM dual) AS y FROM t) SELECT * FROM c",
	}[form]
	a := float64(1)
	doc := Map{"t": []any{Map{"a": a}, Map{"a": float64(2)}}}
	newExec(doc, sql)
	verif.Drain()
	verif.Reach("end")
}
