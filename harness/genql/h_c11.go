package genql

import verif "github.com/vedadiyan/genql/zz_verif"

var c11Queries = []string{
	"SELECT * FROM t WHERE a > ?",
	"SELECT a, (SELECT p FROM items WHERE p > ?) AS sub FROM t",
	"SELECT a FROM t WHERE EXISTS (SELECT p FROM items WHERE p > ?)",
	"SELECT a FROM t WHERE a IN (SELECT p FROM items) OR a > ?",
	"WITH c AS (SELECT a FROM t WHERE a > ?) SELECT a FROM c",
	"SELECT a FROM t WHERE a > ? ORDER BY a DESC",
	"SELECT COUNT(*) AS n, SUM(a) AS s FROM t WHERE a > ?",
	"SELECT a, COUNT(*) AS n FROM t WHERE a > ? GROUP BY a",
	"SELECT * FROM t x JOIN t y ON x.a = y.a WHERE x.a > ?",
	"SELECT a, (SELECT vfault(p) AS f FROM items) AS sub FROM t WHERE a > ?",
	"SELECT a FROM t WHERE vfault(a) > ?",
	"SELECT DISTINCT a FROM t WHERE a > ? LIMIT 1",
	"WITH c AS (SELECT a FROM t WHERE a > ?) SELECT a FROM c UNION ALL SELECT a FROM c",
	"SELECT x.a AS a FROM (WITH c AS (SELECT a FROM t WHERE a > ?) SELECT a FROM c) x",
	"SELECT a FROM t WHERE a > ? AND a IN (WITH c AS (SELECT p FROM items) SELECT p FROM c)",
	"SELECT a, (SELECT p FROM items ORDER BY p DESC LIMIT 1) AS s FROM t WHERE a > ? ORDER BY a",
	"SELECT a, `distinct=>dup` AS d FROM t WHERE a > ?",
	"SELECT p FROM `mix=>t.items` WHERE p > ?",
	"SELECT a, `items[0].p` AS p0, `dup[(0:1)]` AS d FROM t WHERE a > ?",
	"SELECT a, `grid[each:(0:1)]` AS heads, `grid[(0:1):(1:2)]` AS mid FROM t WHERE a > ?",
	"SELECT a, `grid[keep=>each:(0:2)]` AS k, `mix=>grid[keep=>each:(0:1)]` AS m FROM t WHERE a > ?",
	"SELECT a FROM t WHERE EXISTS (SELECT * FROM w WHERE w > ?)",
	"SELECT a, (SELECT w FROM w WHERE w > ?) AS s FROM t",
	"SELECT a, (WITH c AS (SELECT p FROM items) SELECT p FROM c) AS s FROM t WHERE a > ?",
	"SELECT a, FIRST((WITH c AS (SELECT p FROM items WHERE p > ?) SELECT p FROM c)) AS s FROM t",
	// nested objects spread into the output row, before and after other items
	"SELECT FUSE(o), a AS ident FROM t WHERE a > ?",
	"SELECT a AS ident, FUSE(o), a + 1 AS k FROM t WHERE a > ?",
	"SELECT FUSE(FIRST(items)), a, 'x' AS p FROM t WHERE a > ?",
	"SELECT FUSE(o) AS f, a AS k FROM t WHERE a > ?",
	"SELECT FUSE(o), FUSE(FIRST(w)), a AS k FROM t WHERE a > ?",
	// functions that need an option the caller did not pass (no variable map, no constants)
	"SELECT SETVAR('seen', a), a FROM t WHERE a > ?",
	"SELECT a, GETVAR('seen') AS g, CONSTANT('k') AS c FROM t WHERE a > ?",
	"SELECT a FROM t WHERE SETVAR('seen', a) IS NULL OR a > ?",
	// joins with unmatched rows on either side, with and without aliases (from here: unwrapped only)
	"SELECT * FROM t LEFT JOIN u ON t.a = u.a WHERE a > ?",
	"SELECT * FROM t RIGHT JOIN u ON t.a = u.a WHERE a > ?",
	"SELECT * FROM t LEFT JOIN u y ON a = y.a WHERE a > ?",
	"SELECT * FROM t x RIGHT JOIN u ON x.a = a WHERE a > ?",
	"SELECT * FROM t LEFT HASH_JOIN u ON a = w WHERE a > ?",
	"SELECT * FROM t LEFT JOIN u ON a < w WHERE a > ?",
	"SELECT * FROM t RIGHT JOIN u ON a < w WHERE a > ?",
	"SELECT * FROM t JOIN u ON a = w WHERE a > ?",
	"SELECT * FROM t STRAIGHT_JOIN u ON a = w WHERE a > ?",
	"SELECT * FROM t LEFT JOIN u ON a = w INTO z WHERE a > ?",
	"SELECT * FROM t x LEFT JOIN u y ON x.a = y.a INTO z WHERE x.a > ?",
	"SELECT * FROM t PARALLEL LEFT JOIN u ON a = w WHERE a > ?",
	"SELECT x.a AS k, y.w AS v FROM t x LEFT JOIN u y ON x.a = y.a WHERE x.a > ? ORDER BY k",
}

const c11FirstJoin = 33

var faultAt, faultCalls int

func faultFunc(q *Query, cur Map, o *FunctionOptions, args []any) (any, error) {
	faultCalls++
	if faultCalls == faultAt {
		return nil, EXPECTATION_FAILED.Extend("injected fault")
	}
	if len(args) > 0 {
		return args[0], nil
	}
	return nil, nil
}

// H_C11_readonly: after New and Exec return - successfully or with an
// error injected at any invocation of a user function - the caller's
// document is unchanged (same objects, key sets, order, cell values, no
// cycle), with and without Wrapped().
func H_C11_readonly() {
	qi := verif.Choose("query", len(c11Queries))
	wrapped := verif.Choose("wrapped", 2)
	n := verif.Choose("rows", maxRows(2, 2)+1)
	k := verif.Choose("nested", 2) + 1
	faultAt, faultCalls = verif.Choose("fault-at", 4), 0
	RegisterFunction("vfault", faultFunc)
	doc, rows := nestedDoc(n, k)
	for _, r := range rows {
		r["dup"] = []any{r["a"], float64(1), r["a"], float64(2), float64(1), float64(3)}
		// a nested table whose rows have a single key spelled like the table
		r["w"] = []any{Map{"w": r["a"]}, Map{"w": float64(3)}}
		r["o"] = Map{"k": r["a"], "z": float64(9)}
		r["grid"] = []any{[]any{r["a"], float64(1), float64(2)}, []any{float64(3), r["a"], float64(5)}, []any{float64(6), float64(7), float64(8)}}
	}
	if qi >= c11FirstJoin {
		if wrapped == 1 || faultAt != 0 || k != 1 {
			verif.Assume(false)
		}
		// a second table: one row with the first row's key, one unmatched row
		// (w is the join key for the unaliased forms: an unaliased row is not
		// wrapped, so its columns are addressed without a qualifier)
		u := []any{Map{"a": float64(12345), "w": float64(12345)}}
		if n > 0 {
			u = append(u, Map{"a": rows[0]["a"], "w": rows[0]["a"]})
		}
		doc["u"] = u
	}
	// a document whose rows already have a key spelled like the navigation
	// marker (queries with subqueries only)
	hasSub := false
	for i := 0; i+7 <= len(c11Queries[qi]); i++ {
		if c11Queries[qi][i:i+7] == "(SELECT" || c11Queries[qi][i:i+5] == "(WITH" {
			hasSub = true
		}
	}
	if hasSub && verif.Choose("marker-key-in-document", 2) == 1 {
		for _, r := range rows {
			r["<-"] = float64(1)
		}
	}
	// every array of the document is a window of a larger backing array: a
	// library append that lands in the caller's spare capacity shows in the
	// sentinel cells behind the window
	var backings [][]any
	spare := func(a []any) []any {
		b := make([]any, len(a), len(a)+2)
		copy(b, a)
		full := b[:len(a)+2]
		full[len(a)], full[len(a)+1] = "sentinel", "sentinel"
		backings = append(backings, full)
		return b
	}
	for _, r := range rows {
		for _, k := range []string{"items", "dup", "w", "grid"} {
			if a, ok := r[k].([]any); ok {
				if k == "grid" {
					for i := range a {
						a[i] = spare(a[i].([]any))
					}
				}
				r[k] = spare(a)
			}
		}
	}
	for _, k := range []string{"t", "u"} {
		if a, ok := doc[k].([]any); ok {
			doc[k] = spare(a)
		}
	}
	snap := verif.Snapshot(doc)
	c := verif.F64("c")
	sql := c11Queries[qi]
	var opts []QueryOption
	if wrapped == 1 {
		opts = append(opts, Wrapped())
		sql = wrapRoot(sql)
	}
	q, err := New(doc, verif.SQL(sql, c), opts...)
	if err == nil {
		q.Exec()
	}
	verif.Assert(verif.Unchanged(snap, doc), "document-unchanged")
	intact := true
	for _, full := range backings {
		if full[len(full)-1] != "sentinel" || full[len(full)-2] != "sentinel" {
			intact = false
		}
	}
	verif.Assert(intact, "spare-capacity-untouched")
	verif.Reach("end")
}

// wrapRoot rewrites `FROM t` to `FROM root.t` (items stay row-relative).
func wrapRoot(s string) string {
	out := ""
	for i := 0; i < len(s); i++ {
		if i+7 <= len(s) && s[i:i+7] == "FROM t " || (i+6 == len(s) && s[i:] == "FROM t") {
			out += "FROM `root.t`"
			i += 5
			continue
		}
		if i+7 <= len(s) && s[i:i+7] == "JOIN t " {
			out += "JOIN `root.t`"
			i += 5
			continue
		}
		out += string(s[i])
	}
	return out
}
