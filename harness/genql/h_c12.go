package genql

import verif "github.com/vedadiyan/genql/zz_verif"

var c12Queries = []string{
	"SELECT a, a + 1 AS b, -a AS c, 'x' AS s, a > ? AS p FROM t",
	"SELECT (a + 1, 2) AS tup FROM t",
	"SELECT ARRAY(a, a + 1, 'x') AS arr FROM t",
	"SELECT CASE WHEN a > ? THEN a + 1 ELSE NULL END AS c FROM t",
	"SELECT a, (SELECT p + 1 AS q FROM items) AS sub FROM t",
	"SELECT * FROM t WHERE a IN (SELECT p FROM items) OR a > ?",
	"SELECT * FROM t WHERE EXISTS (SELECT p FROM items WHERE p > ?)",
	"SELECT IF(a > ?, a + 1, a - 1) AS v, CONCAT(a, 'x') AS c FROM t",
	"SELECT a, COUNT(*) AS n, SUM(a) AS s FROM t WHERE a > ? GROUP BY a",
	"SELECT * FROM t x JOIN t y ON x.a = y.a WHERE x.a > ?",
	"SELECT FIRST(items) AS f, LAST(items) AS l, UNWIND(ARRAY(items, items)) AS u FROM t WHERE a > ?",
	"SELECT a, ASYNC.vid(a + 1) AS v FROM t WHERE a > ?",
	"WITH c AS (SELECT a + 1 AS b FROM t WHERE a > ?) SELECT * FROM c",
	"SELECT * FROM (SELECT a + 1 AS b FROM t WHERE a > ?) d",
	"SELECT a + 1 AS b FROM t WHERE a > ? ORDER BY b DESC LIMIT 1",
	"SELECT SETVAR('k', a + 1), GETVAR('k') AS g FROM t WHERE a > ?",
	"SELECT DISTINCT a + 1 AS b FROM t WHERE a > ?",
	"SELECT FUSE((SELECT a + 1 AS z FROM dual)) FROM t WHERE a > ?",
	"WITH c AS (SELECT a, ASYNC.vid(a + 1) AS v FROM t WHERE a > ?) SELECT * FROM c",
	"SELECT * FROM (SELECT a, ASYNC.vid(a + 1) AS v FROM t WHERE a > ?) d",
	"SELECT a, (SELECT ASYNC.vid(p) AS w FROM items) AS s FROM t WHERE a > ?",
	"WITH c AS (SELECT a, ASYNC.vid(a) AS v FROM t), d AS (SELECT * FROM c WHERE a > ?) SELECT * FROM d",
	"SELECT a, AWAIT(ASYNC.vid(a + 1)) AS v, AWAIT(a) AS w FROM t WHERE a > ?",
	"SELECT ARRAY(IF(a > ?, 1, a), a) AS arr, (a, IF(a > ?, 'x', 'y')) AS tup, CONCAT('v=', IF(a > ?, 1, 2)) AS c, FIRST(ARRAY(IF(a > ?, a, 'z'))) AS f FROM t",
	"SELECT a, (SELECT (SELECT * FROM `<-`) AS y FROM items) AS x FROM t WHERE a > ?",
	// INTO joins (nested loop and hash)
	"SELECT * FROM t x JOIN t y ON x.a <= y.a INTO pair WHERE x.a > ?",
	"SELECT * FROM t x LEFT JOIN t y ON x.a = y.a INTO pair WHERE x.a > ?",
	// `::` selectors next to the plain selectors their stages spell
	"SELECT q AS w, p AS u, a, `items::[0]::q` AS v, `items[0]::p` AS z FROM t WHERE a > ?",
	// chains of asynchronous slots, with a NULL at the end
	"SELECT a, ASYNC.vid(ASYNC.vnul(a)) AS v FROM t WHERE a > ?",
	"SELECT a, ASYNC.vid(ASYNC.vid(a)) AS w FROM t WHERE a > ?",
	"SELECT x.a AS a, ASYNC.vid(x.q) AS v FROM (SELECT a, ASYNC.vnul(a) AS q FROM t WHERE a > ?) x",
	"SELECT a, FIRST(ARRAY(ASYNC.vnul(a))) AS f FROM t WHERE a > ?",
	// NULL (missing) operands
	"SELECT a + zz AS s, zz * 2 AS m, -zz AS n, zz DIV 2 AS d FROM t WHERE a > ?",
	"SELECT CASE WHEN a > ? THEN a * zz ELSE zz END AS c FROM t",
	"SELECT ARRAY(a - zz, zz) AS arr, IF(a > ?, zz + 1, zz) AS v, (zz + 1, zz) AS tup FROM t",
	"SELECT a, COUNT(zz) AS n, SUM(zz) AS s, MIN(zz) AS lo, AVG(zz + 1) AS av FROM t WHERE a > ? GROUP BY a",
	"SELECT * FROM t WHERE zz + 1 IS NULL OR a > ? ORDER BY zz + 1",
	// spread markers reaching the select list through other expressions
	"SELECT a, CASE WHEN a > ? THEN FUSE(FIRST(items)) ELSE FUSE(LAST(items)) END FROM t",
	"SELECT IF(a > ?, FUSE(FIRST(items)), FUSE((SELECT a AS z FROM dual))), a FROM t",
	"SELECT a, CASE WHEN a > ? THEN FUSE(FIRST(items)) END AS c, ARRAY(FUSE(FIRST(items))) AS arr, FIRST(ARRAY(FUSE(FIRST(items)))) AS f, (FUSE(FIRST(items)), 1) AS tup FROM t",
}

func idFunc(q *Query, cur Map, o *FunctionOptions, args []any) (any, error) {
	if len(args) == 0 {
		return nil, nil
	}
	return args[0], nil
}

// H_C12_plain: a successful result consists only of JSON-representable
// values, is acyclic, has no "<-" key; a second evaluation on an equal
// input yields the same sequence.
func H_C12_plain() {
	qi := verif.Choose("query", len(c12Queries))
	n := verif.Choose("rows", maxRows(2, 2)+1)
	RegisterFunction("vid", idFunc)
	RegisterFunction("vnul", func(q *Query, cur Map, o *FunctionOptions, args []any) (any, error) { return nil, nil })
	asyncCalls := 0
	for i := 0; i+5 <= len(c12Queries[qi]); i++ {
		if c12Queries[qi][i:i+5] == "ASYNC" {
			asyncCalls++
		}
	}
	if n > 1 && hasAnyWord(c12Queries[qi], "FROM `<-`)") {
		verif.Assume(false) // the whole scope is copied into every row: one row
	}
	hasAsync := asyncCalls > 0
	if hasAsync && (n > 1+verif.Tier() || (asyncCalls > 1 && n > 1)) {
		verif.Assume(false) // queries with goroutines: one row (two in the thorough tier when there is a single ASYNC call)
	}
	verif.Opt("maporder", 3)
	verif.Opt("schedules", 1)
	verif.Opt("preempt", 1)
	doc, rows := nestedDoc(n, 1)
	c := verif.F64("c")
	sql := c12Queries[qi]
	holes := []any{}
	for i := 0; i < countHoles(sql); i++ {
		holes = append(holes, c)
	}
	doc2 := Map{"t": deepCopyRows(rows), "g": float64(5)}
	vars := map[string]any{}
	got, err := runQueryQuiet(doc, verif.SQL(sql, holes...), WithVars(vars))
	if err != nil {
		verif.Reach("end")
		return
	}
	verif.Assert(verif.Plain(got) == "", "plain-data")
	// determinism: evaluate again on an equal (fresh) input
	got2, err2 := runQueryQuiet(doc2, verif.SQL(sql, holes...), WithVars(map[string]any{}))
	verif.Assert(err2 == nil, "second-run-ok")
	if err2 == nil && verif.Plain(got) == "" {
		// grouping and joins promise the multiset only (unless ORDER BY fixes the order)
		unordered := false
		for i := 0; i+8 <= len(sql); i++ {
			if sql[i:i+5] == "JOIN " || sql[i:i+8] == "GROUP BY" {
				unordered = true
			}
		}
		for i := 0; i+8 <= len(sql); i++ {
			if sql[i:i+8] == "ORDER BY" {
				unordered = false
			}
		}
		if unordered {
			verif.Assert(eqAnyOrder(got, got2), "same-multiset")
		} else {
			verif.Assert(verif.Eq(got, got2), "same-sequence")
		}
	}
	verif.Reach("end")
}

func deepCopyAny(v any) any {
	switch v := v.(type) {
	case Map:
		c := Map{}
		for k, e := range v {
			c[k] = deepCopyAny(e)
		}
		return c
	case []any:
		c := make([]any, len(v))
		for i, e := range v {
			c[i] = deepCopyAny(e)
		}
		return c
	}
	return v
}

func deepCopyRows(rows []Map) []any {
	out := make([]any, len(rows))
	for i, r := range rows {
		out[i] = deepCopyAny(r)
	}
	return out
}

func hasAnyWord(s string, words ...string) bool { return hasAny(s, words...) }
