package genql

import (
	"sync"

	verif "github.com/vedadiyan/genql/zz_verif"
)

// (the last two differ only in a space inside a quoted key: two cache entries)
var c13Selectors = []string{"a.b", "arr[0].b", "a.c", "arr.b", "'a b'", "'ab'"}

// H_C13_readers: concurrent ExecReader calls (fresh and cached selector
// texts, separate documents) are race free and each returns its solo result.
func H_C13_readers() {
	nt := 2 + verif.Tier()
	verif.Opt("schedules", 1)
	verif.Opt("race", 1)
	verif.Opt("preempt", 2)
	warm := verif.Choose("warm", 2)
	sel := make([]int, nt)
	for i := range sel {
		sel[i] = verif.Choose("selector", len(c13Selectors))
	}
	docs := make([]Map, nt)
	xs := make([]float64, nt)
	for i := range docs {
		xs[i] = verif.F64("x")
		verif.Assume(xs[i] == xs[i])
		docs[i] = Map{"a": Map{"b": xs[i], "c": "s"}, "arr": []any{Map{"b": xs[i]}}, "a b": "with-space", "ab": "without-space"}
	}
	if warm == 1 {
		ExecReader(docs[0], c13Selectors[sel[0]])
	}
	res := make([]any, nt)
	errs := make([]error, nt)
	var wg sync.WaitGroup
	for i := 0; i < nt; i++ {
		wg.Add(1)
		go func(i int) {
			defer wg.Done()
			res[i], errs[i] = ExecReader(docs[i], c13Selectors[sel[i]])
		}(i)
	}
	wg.Wait()
	for i := 0; i < nt; i++ {
		solo, soloErr := ExecReader(docs[i], c13Selectors[sel[i]])
		verif.Assert((errs[i] == nil) == (soloErr == nil), "same-error")
		verif.Assert(verif.Eq(res[i], solo), "same-result")
		// and what the selector means, whatever the cache held when it ran
		want := []any{xs[i], xs[i], "s", []any{xs[i]}, "with-space", "without-space"}[sel[i]]
		verif.Assert(errs[i] == nil && verif.Eq(res[i], want), "documented-result")
	}
	verif.Reach("end")
}

var c13Queries = []string{
	"SELECT a FROM t WHERE a > ?",
	"SELECT a FROM t WHERE a IN (SELECT p FROM items)",
	"SELECT a, (SELECT p FROM items) AS s FROM t WHERE a > ?",
	"SELECT COUNT(*) AS n FROM t WHERE a > ?",
	"SELECT a, ASYNC.vid(a) AS v FROM t WHERE a > ?",
	"SELECT a, SPINASYNC.vid(a) FROM t WHERE a > ?",
	"SELECT * FROM t x PARALLEL JOIN t y ON x.a <= y.a WHERE x.a > ?",
	"SELECT a, (SELECT ASYNC.vid(p) AS w FROM items) AS s FROM t WHERE a > ?",
	"SELECT x.a AS a FROM (WITH c AS (SELECT a FROM t WHERE a > ?) SELECT a FROM c) x",
}

// H_C13_queries: two queries run concurrently on separate documents and on
// one shared document.
func H_C13_queries() {
	shared := verif.Choose("shared", 2)
	q1 := verif.Choose("q1", len(c13Queries))
	q2 := verif.Choose("q2", len(c13Queries))
	// the two threads are symmetric: unordered pairs; the queries with their
	// own goroutines are paired with the plain filter and (thorough tier,
	// except the nested ASYNC subquery whose self-pair has >10^6 schedules)
	// with themselves
	if q2 > q1 || (q1 >= 4 && q2 != 0 && (q2 != q1 || (verif.Tier() == 0 && q1 != 8) || q1 == 7)) {
		verif.Assume(false)
	}
	RegisterFunction("vid", idFunc)
	verif.Opt("schedules", 1)
	verif.Opt("race", 1)
	verif.Opt("preempt", 1) // the thorough tier adds the self-pairs of the queries with goroutines instead of a second preemption
	docA, rowsA := nestedDoc(1, 1)
	docB := docA
	if shared == 0 {
		docB = Map{"t": deepCopyRows(rowsA), "g": float64(5)}
	}
	c := verif.F64("c")
	mk := func(qi int) string {
		var holes []any
		for i := 0; i < countHoles(c13Queries[qi]); i++ {
			holes = append(holes, c)
		}
		return verif.SQL(c13Queries[qi], holes...)
	}
	s1, s2 := mk(q1), mk(q2)
	// solo results on pristine copies
	solo1, e1 := runQueryQuiet(Map{"t": deepCopyRows(rowsA), "g": float64(5)}, s1)
	solo2, e2 := runQueryQuiet(Map{"t": deepCopyRows(rowsA), "g": float64(5)}, s2)
	var r1, r2 []any
	var err1, err2 error
	var wg sync.WaitGroup
	wg.Add(2)
	go func() { defer wg.Done(); r1, err1 = runQueryQuiet(docA, s1) }()
	go func() { defer wg.Done(); r2, err2 = runQueryQuiet(docB, s2) }()
	wg.Wait()
	verif.Assert((err1 == nil) == (e1 == nil) && (err2 == nil) == (e2 == nil), "same-error")
	if err1 == nil && e1 == nil {
		verif.Assert(verif.Eq(r1, solo1), "same-result-1")
	}
	if err2 == nil && e2 == nil {
		verif.Assert(verif.Eq(r2, solo2), "same-result-2")
	}
	verif.Reach("end")
}

var c13TopLevel = []string{"distinct=>arr", "mix=>nest", "distinct=>nest[0]", "arr[(0:1)]", "a{b|string}"}

// H_C13_toplevel: the selector functions (`distinct=>`, `mix=>`), ranges and
// pipes from two threads at once, through ExecReader and through a query's
// FROM clause, on separate documents.
func H_C13_toplevel() {
	verif.Opt("schedules", 1)
	verif.Opt("race", 1)
	verif.Opt("preempt", 1+verif.Tier())
	s1 := verif.Choose("selector", len(c13TopLevel))
	s2 := verif.Choose("selector", len(c13TopLevel))
	via := verif.Choose("via", 2)
	if s2 > s1 {
		verif.Assume(false) // the two threads are symmetric
	}
	next := float64(0)
	mk := func() Map {
		// concrete cells: the subject is the interleaving, not the values
		next += 1.5
		x := next
		r := Map{"b": x}
		return Map{"a": Map{"b": x}, "arr": []any{r, Map{"b": x}, Map{"b": x + 1}}, "nest": []any{[]any{r, r}, []any{Map{"b": x + 1}}}}
	}
	run := func(doc Map, s int) (any, error) {
		if via == 0 || s == 4 {
			return ExecReader(doc, c13TopLevel[s])
		}
		return runQueryQuiet(doc, "SELECT b FROM `"+c13TopLevel[s]+"`")
	}
	d1, d2 := mk(), mk()
	var r1, r2 any
	var e1, e2 error
	var wg sync.WaitGroup
	wg.Add(2)
	go func() { defer wg.Done(); r1, e1 = run(d1, s1) }()
	go func() { defer wg.Done(); r2, e2 = run(d2, s2) }()
	wg.Wait()
	solo1, se1 := run(d1, s1)
	solo2, se2 := run(d2, s2)
	verif.Assert((e1 == nil) == (se1 == nil) && (e2 == nil) == (se2 == nil), "same-error")
	verif.Assert(verif.Eq(r1, solo1) && verif.Eq(r2, solo2), "same-result")
	verif.Reach("end")
}

// c13Extra: clause and function forms the other lists do not contain.
var c13Extra = []string{
	"SELECT a FROM t WHERE s LIKE 'a%'",
	"SELECT a FROM t WHERE s NOT LIKE '%b'",
	"SELECT a FROM t WHERE a BETWEEN 0 AND 5 AND s IN ('ab', 'x')",
	"SELECT a, CASE WHEN a > 1 THEN 'hi' ELSE 'lo' END AS c FROM t ORDER BY a DESC LIMIT 1",
	"SELECT DISTINCT s FROM t",
	"SELECT s, COUNT(*) AS n, SUM(a) AS t FROM t GROUP BY s HAVING COUNT(*) > 0",
	"SELECT a FROM t UNION SELECT a FROM u",
	"SELECT CONCAT(s, a) AS c, TO_UPPER(s) AS up, CHANGETYPE(a, 'string') AS st, ELEMENTAT(arr, 0) AS e FROM t",
	"SELECT SUBSTRING(s, 1, 1) AS v FROM t",
	"SELECT x.a AS l, y.a AS r FROM t x LEFT JOIN u y ON x.a = y.a",
	"SELECT x.a AS l, y.a AS r FROM t x JOIN u y ON x.a < y.a",
	"SELECT a FROM `t{a, s|string}`",
	"SELECT GETVAR('k') AS g, SETVAR('k', a) FROM t",
	"SELECT ONCE.vid(a) AS o FROM t",
}

// H_C13_selfpairs: every query of the lists used by the other properties,
// run by two threads at once on separate documents: any package-level
// state a query writes (caches, scratch buffers, lazily initialised tables)
// is a write/write race of the query with itself, whatever the schedule.
func H_C13_selfpairs() {
	lists := [][]string{c13Extra, c12Queries, c11Queries, c10Queries2, c13Queries}
	li := verif.Choose("list", len(lists))
	qi := verif.Choose("query", 100)
	if qi >= len(lists[li]) {
		verif.Assume(false)
	}
	RegisterFunction("vid", idFunc)
	RegisterFunction("vfail", failingFunc)
	RegisterFunction("vfault", idFunc)
	verif.Opt("race", 1)
	sql := ""
	for i := 0; i < len(lists[li][qi]); i++ {
		if lists[li][qi][i] == '?' {
			sql += "1"
		} else {
			sql += lists[li][qi][i : i+1]
		}
	}
	mk := func(base float64) Map {
		row := func(a float64, s string) Map {
			return Map{"a": a, "s": s, "o": Map{"k": a}, "arr": []any{a, "q"}, "items": []any{Map{"p": a, "q": a + 1}}, "dup": []any{a, a}}
		}
		return Map{
			"t": []any{row(base, "ab"), row(base+1, "x")},
			"u": []any{Map{"a": base}, Map{"a": base + 7}},
			"a": Map{"b": base},
			"g": float64(5),
		}
	}
	d1, d2 := mk(1), mk(2)
	var wg sync.WaitGroup
	wg.Add(2)
	go func() { defer wg.Done(); runQueryQuiet(d1, sql, WithVars(map[string]any{})) }()
	go func() { defer wg.Done(); runQueryQuiet(d2, sql, WithVars(map[string]any{})) }()
	wg.Wait()
	verif.Drain()
	verif.Reach("end")
}
