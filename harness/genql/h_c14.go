package genql

import (
	"sync"

	verif "github.com/vedadiyan/genql/zz_verif"
)

var (
	cntMu                                sync.Mutex
	callsF, callsG, callsH, doneF, doneG int
)

func cntF(q *Query, cur Map, o *FunctionOptions, args []any) (any, error) {
	cntMu.Lock()
	callsF++
	cntMu.Unlock()
	v := args[0].(float64) + 1
	cntMu.Lock()
	doneF++
	cntMu.Unlock()
	return v, nil
}

func cntG(q *Query, cur Map, o *FunctionOptions, args []any) (any, error) {
	cntMu.Lock()
	callsG++
	cntMu.Unlock()
	v := args[0]
	cntMu.Lock()
	doneG++
	cntMu.Unlock()
	return v, nil
}

func cntH(q *Query, cur Map, o *FunctionOptions, args []any) (any, error) {
	cntMu.Lock()
	callsH++
	n := callsH
	cntMu.Unlock()
	return float64(n), nil
}

// H_C14_strategies: ASYNC changes when a call runs, not the result;
// SPINASYNC/SPIN add no column and SPINASYNC completes before Exec
// returns; ONCE runs once; under every (preemption-bounded) schedule.
func H_C14_strategies() {
	n := verif.Choose("rows", maxRows(2, 3)+1)
	form := verif.Choose("form", 19)
	if ((form >= 4 && form != 9 && form < 12) || form >= 16) && n > 1+verif.Tier() {
		verif.Assume(false) // nested forms: one row (two in the thorough tier)
	}
	callsF, callsG, callsH, doneF, doneG = 0, 0, 0, 0, 0
	RegisterFunction("vf", cntF)
	RegisterFunction("vg", cntG)
	RegisterFunction("vh", cntH)
	verif.Opt("schedules", 1)
	verif.Opt("race", 1)
	// thorough tier: a second preemption for up to two rows (one row for the
	// nested forms), three rows with one preemption
	p := 1
	if verif.Tier() > 0 && (n <= 1 || (n == 2 && form < 4)) {
		p = 2
	}
	verif.Opt("preempt", p)
	doc, rows := numTable(n, "a")
	var sql string
	switch form {
	case 0:
		sql = "SELECT a, ASYNC.vf(a) AS v FROM t"
	case 1:
		sql = "SELECT a, SPINASYNC.vg(a), SPIN.vg(a) FROM t"
	case 2:
		sql = "SELECT a, ONCE.vh(a) AS o FROM t"
	case 3:
		sql = "SELECT u.a AS a, u.v AS v FROM (SELECT a, ASYNC.vf(a) AS v FROM t) u"
	case 4:
		sql = "SELECT a, (SELECT SPINASYNC.vg(1) FROM dual) AS s FROM t"
	case 5:
		sql = "SELECT u.a AS a FROM (SELECT a, SPINASYNC.vg(a) FROM t) u"
	case 6:
		sql = "SELECT a FROM t WHERE EXISTS (SELECT SPINASYNC.vg(1) FROM `<-t`)"
	case 7:
		sql = "SELECT a, (SELECT ASYNC.vf(1) AS w FROM dual) AS s FROM t"
	case 8:
		sql = "WITH c AS (SELECT a, SPINASYNC.vg(a) FROM t) SELECT a FROM c"
	case 9:
		// an ASYNC call started by AWAIT (after Exec's own wait)
		sql = "SELECT a, AWAIT(ASYNC.vf(a)) AS v FROM t"
	case 16:
		// union branches with background calls and no column that waits for them
		sql = "SELECT a, SPINASYNC.vg(a) FROM t UNION ALL SELECT a FROM t"
	case 17:
		sql = "SELECT a FROM t UNION ALL SELECT a, SPINASYNC.vg(a) FROM t"
	case 18:
		sql = "SELECT a, ASYNC.vf(a) AS v FROM t UNION ALL SELECT a, SPINASYNC.vg(a) FROM t"
	case 10:
		// the same qualified call twice in one select list
		sql = "SELECT a, ASYNC.vf(a) AS v, ASYNC.vf(a) AS w FROM t"
	case 11:
		// qualified and unqualified calls mixed
		sql = "SELECT a, ASYNC.vf(a) AS v, vg(a) AS u, SPINASYNC.vg(a) FROM t"
	case 13:
		// calls are started for every row that passed WHERE, also when the window is empty
		sql = "SELECT a, ASYNC.vf(a) AS v FROM t LIMIT 0"
	case 14:
		sql = "SELECT a, SPINASYNC.vg(a) FROM t LIMIT 1 OFFSET 7"
	case 15:
		sql = "SELECT a, ASYNC.vf(a) AS v FROM t LIMIT 1 OFFSET 1"
	case 12:
		// ONCE on a function whose result is NULL (a side-effect only initialiser)
		RegisterFunction("vnil", func(q *Query, cur Map, o *FunctionOptions, args []any) (any, error) {
			cntMu.Lock()
			callsH++
			cntMu.Unlock()
			return nil, nil
		})
		sql = "SELECT a, ONCE.vnil(a) AS o FROM t"
	}
	got, ok := runQuery(doc, sql)
	if !ok {
		return
	}
	cntMu.Lock()
	defer cntMu.Unlock()
	switch form {
	case 0, 3, 9:
		verif.Assert(callsF == n && doneF == n, "async-called-once-per-row-and-completed")
		var want []any
		for _, r := range rows {
			want = append(want, Map{"a": r["a"], "v": f64of(r["a"]) + 1})
		}
		verif.Assert(verif.Eq(got, want), "async-equals-sync")
	case 10:
		verif.Assert(callsF == 2*n && doneF == 2*n, "async-called-once-per-row-and-completed")
		var want []any
		for _, r := range rows {
			want = append(want, Map{"a": r["a"], "v": f64of(r["a"]) + 1, "w": f64of(r["a"]) + 1})
		}
		verif.Assert(verif.Eq(got, want), "async-equals-sync")
	case 11:
		verif.Assert(callsF == n && doneF == n && callsG == 2*n && doneG == 2*n, "async-called-once-per-row-and-completed")
		var want []any
		for _, r := range rows {
			want = append(want, Map{"a": r["a"], "v": f64of(r["a"]) + 1, "u": r["a"]})
		}
		verif.Assert(verif.Eq(got, want), "async-equals-sync")
	case 1:
		// SPINASYNC calls completed (n of the 2n calls are SPIN calls that may still be running)
		verif.Assert(doneG >= n && callsG <= 2*n, "spinasync-completed")
		var want []any
		for _, r := range rows {
			want = append(want, Map{"a": r["a"]})
		}
		verif.Assert(verif.Eq(got, want), "spin-adds-no-column")
	case 4, 5, 8:
		// every SPINASYNC call inside a subquery / derived table / CTE has
		// completed when Exec returns
		verif.Assert(callsG == n && doneG == n, "nested-spinasync-completed")
	case 6:
		// the EXISTS subquery runs once per outer row over the n rows of `<-t`
		verif.Assert(callsG == n*n && doneG == n*n, "nested-spinasync-completed")
	case 7:
		verif.Assert(callsF == n && doneF == n, "nested-async-completed")
		var want []any
		for _, r := range rows {
			want = append(want, Map{"a": r["a"], "s": Map{"w": float64(2)}})
		}
		verif.Assert(verif.Eq(got, want), "async-equals-sync")
	case 16, 17:
		verif.Assert(callsG == n && doneG == n, "nested-spinasync-completed")
		verif.Assert(len(got) == 2*n, "spin-adds-no-column")
	case 18:
		verif.Assert(callsF == n && doneF == n && callsG == n && doneG == n, "nested-spinasync-completed")
		verif.Assert(len(got) == 2*n, "spin-adds-no-column")
	case 13, 15:
		verif.Assert(callsF == n && doneF == n, "async-called-once-per-row-and-completed")
		var want []any
		if form == 15 && n >= 2 {
			want = append(want, Map{"a": rows[1]["a"], "v": f64of(rows[1]["a"]) + 1})
		}
		verif.Assert(verif.Eq(got, want), "async-equals-sync")
	case 14:
		verif.Assert(callsG == n && doneG == n, "nested-spinasync-completed")
		verif.Assert(len(got) == 0, "spin-adds-no-column")
	case 12:
		want := []any{}
		for _, r := range rows {
			want = append(want, Map{"a": r["a"], "o": nil})
		}
		wantCalls := 1
		if n == 0 {
			wantCalls = 0
		}
		verif.Assert(callsH == wantCalls, "once-called-once")
		verif.Assert(verif.Eq(got, want), "once-value-on-every-row")
	case 2:
		want := []any{}
		for _, r := range rows {
			want = append(want, Map{"a": r["a"], "o": float64(1)})
		}
		wantCalls := 1
		if n == 0 {
			wantCalls = 0
		}
		verif.Assert(callsH == wantCalls, "once-called-once")
		verif.Assert(verif.Eq(got, want), "once-value-on-every-row")
	}
	verif.Reach("end")
}

// H_C14_immediate: immediate functions reject ASYNC, SPIN and SPINASYNC.
func H_C14_immediate() {
	qual := verif.Choose("qualifier", 6)
	fn := verif.Choose("func", 11)
	doc, _ := numTable(1, "a")
	// functions registered as immediate by the caller, under names of any case
	RegisterImmediateFunction("vimm", idFunc)
	RegisterImmediateFunction("MixedCase", idFunc)
	RegisterImmediateFunction("UPPER_IMM", idFunc)
	// names that were ordinary functions before they were registered as immediate
	RegisterFunction("vswitch", idFunc)
	RegisterImmediateFunction("vswitch", idFunc)
	RegisterImmediateFunction("concat", ConcatFunc)
	RegisterExternalFunction("vext", func(args []any) (any, error) { return nil, nil })
	RegisterImmediateFunction("vext", idFunc)
	q := []string{"ASYNC.", "SPIN.", "SPINASYNC.", "async.", "Spin.", "SpinAsync."}[qual]
	f := []string{"TO_LOWER('x')", "GETVAR('k')", "CONSTANT('k')", "vimm(a)", "MixedCase(a)", "mixedcase(a)", "UPPER_IMM(a)", "Upper_Imm(a)", "vswitch(a)", "CONCAT(a, a)", "vext(a)"}[fn]
	_, err := runQueryQuiet(doc, "SELECT "+q+f+" AS v FROM t", WithVars(map[string]any{}), WithConstants(map[string]any{"k": 1.0}))
	verif.Assert(err != nil, "immediate-rejects-qualifier")
	verif.Reach("end")
}
