package genql

import verif "github.com/vedadiyan/genql/zz_verif"

// H_C17_dq: DoubleQuotesToBackTick only changes how identifiers are quoted:
// the token stream of the rewritten text equals the token stream of the
// input with every double-quoted STRING re-typed as an identifier; values
// of '...' literals and `...` identifiers are untouched.
func H_C17_dq() {
	maxLen := 5 + verif.Tier()
	withBackslash := verif.Choose("backslash", 3)
	alpha := "\"'`[]a, \xc3"
	if withBackslash == 1 {
		alpha = "\"'\\a`"
	}
	if withBackslash == 2 {
		alpha = "\"-a \n" // minus signs: `--` opens a comment only before a blank
	}
	checkDQ(verif.Str("s", maxLen, alpha))
}

// H_C17_dq_context: a double-quoted identifier after any short prefix of
// quotes, backticks and backslashes (the quoting state it is scanned in is
// the one the tokenizer is in).
func H_C17_dq_context() {
	// (no double quote in the prefix: `""` next to the identifier is the embedded-quote case of H_C17_dq)
	switch verif.Choose("alphabet", 3) {
	case 1:
		// comments holding quotes, before the identifier
		prefix := verif.Str("prefix", 5+verif.Tier(), "-' \n#")
		checkDQ(prefix + "\"b\"")
		return
	case 2:
		// the other blanks that make `--` a comment (tab, carriage return)
		prefix := verif.Str("prefix", 5+verif.Tier(), "-'\t\r\n")
		checkDQ(prefix + "\"b\"")
		return
	}
	prefix := verif.Str("prefix", 3+verif.Tier(), "`\\'a ")
	checkDQ(prefix + "\"b\"")
}

func checkDQ(s string) {
	// the implementation runs first, on the still symbolic bytes
	out, err := DoubleQuotesToBackTick(s)
	class, typ, start, end, val := verif.MySQLScan(s)
	embedded := false // a double-quoted identifier whose body contains a (doubled) quote
	for i, c := range class {
		if c == verif.TokError {
			verif.Assume(false) // inputs the tokenizer rejects are outside the claim
		}
		// identifier bodies are assumed free of backslashes and backticks (the two quoting styles decode them differently)
		if c == verif.TokString && s[start[i]] == '"' {
			for k := start[i]; k < end[i]; k++ {
				if s[k] == '\\' || s[k] == '`' {
					verif.Assume(false)
				}
			}
			if len(val[i]) == 0 {
				verif.Assume(false) // `` is not a valid identifier
			}
			for k := 0; k < len(val[i]); k++ {
				if val[i][k] == '"' {
					embedded = true
				}
			}
		}
	}
	verif.Assert(err == nil, "no-error-on-well-formed-input")
	if err != nil {
		return
	}
	oclass, otyp, _, _, oval := verif.MySQLScan(out)
	ok := len(oclass) == len(class)
	if ok {
		for i := range class {
			if class[i] == verif.TokString && s[start[i]] == '"' {
				if oclass[i] != verif.TokIdent || oval[i] != val[i] {
					ok = false
				}
			} else if class[i] == verif.TokComment {
				// the text of a comment may change (a quote inside it is rewritten): harmless
				if otyp[i] != typ[i] {
					ok = false
				}
			} else if otyp[i] != typ[i] || oval[i] != val[i] {
				ok = false
			}
		}
	}
	if embedded {
		verif.Assert(ok, "identifier-with-embedded-quote")
	} else {
		verif.Assert(ok, "only-identifier-quoting-changes")
	}
	verif.Reach("end")
}

// H_C17_arrays: FixIdiomaticArray turns every [ ] outside string literals
// and quoted identifiers into ARRAY( ) and leaves everything else alone.
func H_C17_arrays() {
	maxLen := 5 + verif.Tier()
	alpha := "[]'\"`a,1"
	switch verif.Choose("backslash", 4) {
	case 1:
		alpha = "[]'\\\"a" // escapes inside literals: \\ \' \" before and between brackets
	case 2:
		alpha = "[]-' \n" // comments holding brackets and quotes
	case 3:
		alpha = "[]-'\t\n" // `--` before a tab
	}
	s := verif.Str("s", maxLen, alpha)
	// the implementation runs first, on the still symbolic bytes
	var out string
	var err error
	_, _, pan := tryCall(func() (any, error) { out, err = FixIdiomaticArray(s); return nil, nil })
	// literal spans are those of the text with brackets spelled as parens
	p := ""
	for i := 0; i < len(s); i++ {
		switch s[i] {
		case '[':
			p += "("
		case ']':
			p += ")"
		default:
			p += s[i : i+1]
		}
	}
	class, _, start, end, _ := verif.MySQLScan(p)
	for _, c := range class {
		if c == verif.TokError {
			verif.Assume(false)
		}
	}
	want := ""
	depth := 0
	balanced := true
	for i := 0; i < len(s); i++ {
		protected := false
		for k := range class {
			if start[k] <= i && i < end[k] && (class[k] == verif.TokString || class[k] == verif.TokComment || (class[k] == verif.TokIdent && p[start[k]] == '`')) {
				protected = true
			}
		}
		switch {
		case s[i] == '[' && !protected:
			want += "ARRAY("
			depth++
		case s[i] == ']' && !protected:
			want += ")"
			depth--
			if depth < 0 {
				balanced = false
			}
		default:
			want += s[i : i+1]
		}
	}
	if depth != 0 {
		balanced = false
	}
	verif.Assert(!pan, "no-panic")
	if pan {
		return
	}
	if balanced {
		verif.Assert(err == nil && out == want, "brackets-become-array")
	} else {
		verif.Assert(err != nil, "unbalanced-is-error")
	}
	verif.Reach("end")
}

var c17Queries = [][2]string{
	{`SELECT "a", "b" AS "x" FROM "t" WHERE "a" > ?`, "SELECT `a`, `b` AS `x` FROM `t` WHERE `a` > ?"},
	{`SELECT "a" FROM "t" WHERE "s" = 'it"s' AND "a" > ?`, "SELECT `a` FROM `t` WHERE `s` = 'it\"s' AND `a` > ?"},
	{`SELECT "a" FROM t WHERE s = '[x]' AND "a" > ?`, "SELECT `a` FROM t WHERE s = '[x]' AND `a` > ?"},
}

// H_C17_options: PostgresEscapingDialect + double-quoted identifiers equals
// the backtick spelling; IdiomaticArrays [..] equals ARRAY(..); Wrapped()
// equals passing {"root": input}.
func H_C17_options() {
	which := verif.Choose("option", 3)
	n := verif.Choose("rows", 3)
	doc, rows := numTable(n, "a", "b")
	for i, r := range rows {
		r["s"] = []string{"it\"s", "[x]", "z"}[i%3]
	}
	c := verif.F64("c")
	switch which {
	case 0:
		qi := verif.Choose("query", len(c17Queries))
		got, err := runQueryQuiet(doc, verif.SQL(c17Queries[qi][0], c), PostgresEscapingDialect())
		want, werr := runQueryQuiet(Map{"t": deepCopyRows(rows)}, verif.SQL(c17Queries[qi][1], c))
		verif.Assert(err == nil && werr == nil, "both-run")
		if err == nil && werr == nil {
			verif.Assert(verif.Eq(got, want), "same-result")
		}
	case 1:
		got, err := runQueryQuiet(doc, verif.SQL("SELECT [a, [b, ?], '[x]'] AS arr FROM t WHERE s != '[' AND a > ?", c, c), IdomaticArrays())
		want, werr := runQueryQuiet(Map{"t": deepCopyRows(rows)}, verif.SQL("SELECT ARRAY(a, ARRAY(b, ?), '[x]') AS arr FROM t WHERE s != '[' AND a > ?", c, c))
		verif.Assert(err == nil && werr == nil, "both-run")
		if err == nil && werr == nil {
			verif.Assert(verif.Eq(got, want), "same-result")
		}
	case 2:
		got, err := runQueryQuiet(doc, verif.SQL("SELECT a, b FROM `root.t` WHERE a > ?", c), Wrapped())
		want, werr := runQueryQuiet(Map{"root": Map{"t": deepCopyRows(rows)}}, verif.SQL("SELECT a, b FROM `root.t` WHERE a > ?", c))
		verif.Assert(err == nil && werr == nil, "both-run")
		if err == nil && werr == nil {
			verif.Assert(verif.Eq(got, want), "same-result")
		}
	}
	verif.Reach("end")
}

// H_C17_option_sequence: what a query text means depends on the options of
// that call only, not on the options an earlier call passed with the same
// text: every ordered pair of option sets on one text that both rewrites touch.
func H_C17_option_sequence() {
	first := verif.Choose("first-options", 4)
	second := verif.Choose("second-options", 4)
	x := verif.F64("a")
	verif.Assume(x == x)
	doc := func() Map { return Map{"t": []any{Map{"a": x}}} }
	text := `SELECT "a" AS n, [1, [2, 3]] AS p FROM t`
	opts := func(k int) []QueryOption {
		var o []QueryOption
		if k&1 != 0 {
			o = append(o, PostgresEscapingDialect())
		}
		if k&2 != 0 {
			o = append(o, IdomaticArrays())
		}
		return o
	}
	runQueryQuiet(doc(), text, opts(first)...)
	got, err := runQueryQuiet(doc(), text, opts(second)...)
	arr := []any{float64(1), []any{float64(2), float64(3)}}
	switch second {
	case 0, 1:
		verif.Assert(err != nil, "brackets-need-the-option")
	case 2:
		// without the dialect option "a" is a string literal
		verif.Assert(err == nil && verif.Eq(got, []any{Map{"n": "a", "p": arr}}), "arrays-only")
	case 3:
		verif.Assert(err == nil && verif.Eq(got, []any{Map{"n": x, "p": arr}}), "both-options")
	}
	verif.Reach("end")
}

// H_C17_sequence: an input the rewrite rejects leaves nothing behind: the
// next text is rewritten exactly as it is on its own.
func H_C17_sequence() {
	bad := []string{"SELECT \"a\" FROM t WHERE s = 'x\\", "SELECT \"a\\", "[1, [2", "SELECT ']' , ]"}[verif.Choose("rejected-input", 4)]
	which := verif.Choose("function", 2)
	good := verif.Str("good", 3+verif.Tier(), "\"a [],1")
	var alone, after string
	var e0, e1, e2 error
	if which == 0 {
		alone, e0 = DoubleQuotesToBackTick(good)
		_, e1 = DoubleQuotesToBackTick(bad)
		after, e2 = DoubleQuotesToBackTick(good)
	} else {
		alone, e0 = FixIdiomaticArray(good)
		_, e1 = FixIdiomaticArray(bad)
		after, e2 = FixIdiomaticArray(good)
	}
	_ = e1
	verif.Assert((e0 == nil) == (e2 == nil), "same-status-after-rejected-input")
	if e0 == nil && e2 == nil {
		verif.Assert(alone == after, "same-rewrite-after-rejected-input")
	}
	verif.Reach("end")
}
