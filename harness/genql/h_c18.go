package genql

import (
	"unicode"

	verif "github.com/vedadiyan/genql/zz_verif"
)

// symArray: an array of 0..3 numeric cells, possibly with a NULL.
func symArray(label string) []any {
	n := verif.Choose(label+"-len", 4)
	out := make([]any, n)
	for i := range out {
		if verif.Choose(label+"-null", 2) == 1 {
			out[i] = nil
			continue
		}
		x := verif.F64(label)
		verif.Assume(x == x)
		out[i] = x
	}
	return out
}

func oneRow(doc Map, sql string, opts ...QueryOption) (Map, error) {
	got, err := runQueryQuiet(doc, sql, opts...)
	if err != nil {
		return nil, err
	}
	if len(got) != 1 {
		return nil, EXPECTATION_FAILED
	}
	m, ok := got[0].(Map)
	if !ok {
		return nil, EXPECTATION_FAILED
	}
	return m, nil
}

// H_C18_arrays: FIRST / LAST / ELEMENTAT / UNWIND / ARRAY.
func H_C18_arrays() {
	fn := verif.Choose("fn", 5)
	arr := symArray("arr")
	doc := Map{"t": []any{Map{"arr": arr, "nul": nil, "x": float64(7)}}}
	switch fn {
	case 0, 1:
		name := []string{"FIRST", "LAST"}[fn]
		m, err := oneRow(doc, "SELECT "+name+"(arr) AS v, "+name+"(nul) AS n FROM t")
		verif.Assert(err == nil, "no-error")
		if err != nil {
			return
		}
		var want any
		if len(arr) > 0 {
			want = arr[0]
			if fn == 1 {
				want = arr[len(arr)-1]
			}
		}
		verif.Assert(verif.Eq(m["v"], want) && m["n"] == nil, "first-last")
	case 2:
		// any index: negative, fractional, past the end
		i := verif.F64("i")
		verif.Assume(verif.All(i == i, i > -2147483648, i < 2147483648))
		neg := verif.Choose("negative", 2)
		var m Map
		var err error
		if neg == 1 {
			m, err = oneRow(doc, verif.SQL("SELECT ELEMENTAT(arr, -?) AS v FROM t", i))
			i = -1 * i
		} else {
			m, err = oneRow(doc, verif.SQL("SELECT ELEMENTAT(arr, ?) AS v FROM t", i))
		}
		idx := int(i)
		if idx >= 0 && idx < len(arr) {
			verif.Assert(err == nil, "in-range-no-error")
			if err == nil {
				verif.Assert(verif.Eq(m["v"], arr[idx]), "element")
			}
		} else {
			verif.Assert(err != nil, "out-of-range-is-error")
		}
	case 3:
		nested := []any{arr, float64(1), []any{[]any{float64(2)}}}
		m, err := oneRow(Map{"t": []any{Map{"n": nested}}}, "SELECT UNWIND(n) AS v FROM t")
		verif.Assert(err == nil, "no-error")
		if err != nil {
			return
		}
		want := append(append([]any{}, arr...), float64(1), []any{float64(2)})
		verif.Assert(verif.Eq(m["v"], want), "unwind-one-level")
	case 4:
		m, err := oneRow(doc, "SELECT ARRAY(x, arr, 'k', nul) AS v FROM t")
		verif.Assert(err == nil, "no-error")
		if err != nil {
			return
		}
		verif.Assert(verif.Eq(m["v"], []any{float64(7), arr, "k", nil}), "array-in-order")
	}
	verif.Reach("end")
}

// H_C18_scalar: IF / CONCAT / CHANGETYPE / DATERANGE / CONSTANT / case maps.
func H_C18_scalar() {
	fn := verif.Choose("fn", 7)
	x := verif.F64("x")
	verif.Assume(x == x)
	s := verif.Str("s", 2, "aZ-")
	b := verif.Bool("b")
	doc := Map{"t": []any{Map{"x": x, "s": s, "b": b, "nul": nil}}}
	switch fn {
	case 0:
		m, err := oneRow(doc, "SELECT IF(b, x, s) AS v, IF(b, nul, s) AS tn, IF(b, x, nul) AS fn, IF(b, nul, nul) AS nn FROM t")
		verif.Assert(err == nil, "no-error")
		if err == nil {
			if b {
				verif.Assert(verif.Eq(m["v"], x) && m["tn"] == nil && verif.Eq(m["fn"], x) && m["nn"] == nil, "if-true")
			} else {
				verif.Assert(verif.Eq(m["v"], s) && verif.Eq(m["tn"], s) && m["fn"] == nil && m["nn"] == nil, "if-false")
			}
		}
	case 1:
		m, err := oneRow(doc, "SELECT CONCAT(s, 'k', s) AS v, CONCAT(s, nul, 'k') AS n FROM t")
		verif.Assert(err == nil, "no-error")
		if err == nil {
			verif.Assert(verif.Eq(m["v"], s+"k"+s), "concat")
			verif.Assert(verif.Eq(m["n"], s+"k"), "concat-skips-null")
		}
		// adjacent arguments that are not strings: nothing but their texts
		m, err = oneRow(doc, "SELECT CONCAT(1, 2) AS d, CONCAT(s, 1, b, s) AS mixed, CONCAT(7) AS one, CONCAT(1, 2.5, TRUE, s) AS t3, CONCAT(b, b) AS bb FROM t")
		verif.Assert(err == nil, "no-error")
		if err == nil {
			bt := "false"
			if b {
				bt = "true"
			}
			verif.Assert(verif.Eq(m["d"], "12") && verif.Eq(m["one"], "7") && verif.Eq(m["t3"], "12.5true"+s), "concat-adjacent-non-strings")
			verif.Assert(verif.Eq(m["mixed"], s+"1"+bt+s) && verif.Eq(m["bb"], bt+bt), "concat-adjacent-non-strings")
		}
	case 2:
		m, err := oneRow(doc, "SELECT CHANGETYPE(x, 'array') AS a, CHANGETYPE(s, 'STRING') AS st, CHANGETYPE(CHANGETYPE(x, 'string'), 'double') AS rt, CHANGETYPE(nul, 'double') AS n FROM t")
		verif.Assert(err == nil, "no-error")
		if err == nil {
			verif.Assert(verif.Eq(m["a"], []any{x}) && verif.Eq(m["st"], s) && verif.Eq(m["rt"], x) && m["n"] == nil, "changetype")
		}
		_, err = oneRow(doc, "SELECT CHANGETYPE(x, 'nosuch') AS a FROM t")
		verif.Assert(err != nil, "unknown-type-is-error")
	case 3:
		m, err := oneRow(doc, "SELECT DATERANGE(s, 'to') AS v FROM t")
		verif.Assert(err == nil, "no-error")
		if err == nil {
			r, isArr := m["v"].([]string)
			verif.Assert(isArr && len(r) == 2 && r[0] == s && r[1] == "to", "daterange")
		}
	case 4:
		m, err := oneRow(doc, "SELECT CONSTANT('k') AS v FROM t", WithConstants(map[string]any{"k": x}))
		verif.Assert(err == nil, "no-error")
		if err == nil {
			verif.Assert(verif.Eq(m["v"], x), "constant")
		}
		_, err = oneRow(doc, "SELECT CONSTANT('zz') AS v FROM t", WithConstants(map[string]any{"k": x}))
		verif.Assert(err != nil, "unknown-constant-is-error")
	case 5:
		m, err := oneRow(doc, "SELECT TO_LOWER(s) AS l, TO_UPPER(s) AS u FROM t")
		verif.Assert(err == nil, "no-error")
		if err == nil {
			lo, up := "", ""
			for i := 0; i < len(s); i++ {
				c := s[i]
				l, u := c, c
				if c >= 'A' && c <= 'Z' {
					l = c + 32
				}
				if c >= 'a' && c <= 'z' {
					u = c - 32
				}
				lo += string(rune(l))
				up += string(rune(u))
			}
			verif.Assert(verif.Eq(m["l"], lo) && verif.Eq(m["u"], up), "case-maps")
		}
	case 6:
		ai := verif.Choose("arity", 9)
		calls := []string{"FIRST()", "FIRST(x, x)", "ELEMENTAT(x)", "IF(b, x)", "IF(b, x, x, x)", "DATERANGE(s)", "CONSTANT()", "UNWIND(x, x)", "CHANGETYPE(x)"}
		_, err := oneRow(doc, "SELECT "+calls[ai]+" AS v FROM t", WithConstants(map[string]any{"k": x}))
		verif.Assert(err != nil, "wrong-arity-is-error")
	}
	verif.Reach("end")
}

// H_C18_objects: DEFAULTKEY and FUSE.
func H_C18_objects() {
	fn := verif.Choose("fn", 2)
	x := verif.F64("x")
	verif.Assume(x == x)
	keys := verif.Choose("keys", 3)
	obj := Map{}
	if keys >= 1 {
		obj["p"] = x
	}
	if keys >= 2 {
		obj["q"] = "s"
	}
	doc := Map{"t": []any{Map{"o": obj, "nul": nil, "x": x}}}
	switch fn {
	case 0:
		m, err := oneRow(doc, "SELECT DEFAULTKEY(o) AS v, DEFAULTKEY(nul) AS n FROM t")
		if keys == 1 {
			verif.Assert(err == nil, "single-key-ok")
			if err == nil {
				verif.Assert(verif.Eq(m["v"], x) && m["n"] == nil, "defaultkey")
			}
		} else {
			verif.Assert(err != nil, "zero-or-many-keys-is-error")
		}
	case 1:
		m, err := oneRow(doc, "SELECT x, FUSE(o) FROM t")
		verif.Assert(err == nil, "no-error")
		if err == nil {
			want := Map{"x": x}
			for k, v := range obj {
				want[k] = v
			}
			verif.Assert(verif.Eq(m, want), "fuse")
		}
		_, err = oneRow(doc, "SELECT FUSE(x) FROM t")
		verif.Assert(err != nil, "fuse-non-object-is-error")
	}
	verif.Reach("end")
}

// parseDecInt is the reference for CHANGETYPE(v, 'integer'): an optional
// sign followed by decimal digits, nothing else.
func parseDecInt(s string) (int, bool) {
	i := 0
	neg := false
	if i < len(s) && (s[i] == '-' || s[i] == '+') {
		neg = s[i] == '-'
		i++
	}
	if i == len(s) {
		return 0, true
	}
	n := 0
	for ; i < len(s); i++ {
		if s[i] < '0' || s[i] > '9' {
			return 0, true
		}
		n = n*10 + int(s[i]-'0')
	}
	if neg {
		n = -n
	}
	return n, false
}

// H_C18_changetype: CHANGETYPE of short texts over digits, signs, dots and
// the characters Go's other integer syntaxes use (x, _), and of small
// numbers, to every target type name (any case) and an unknown one.
func H_C18_changetype() {
	target := verif.Choose("target", 6)
	names := []string{"integer", "double", "string", "array", "INTEGER", "int"}
	src := verif.Choose("source", 2)
	var v any
	var text string
	if src == 0 {
		text = verif.Str("txt", 3+verif.Tier(), "0189x-_.+")
		v = text
	} else {
		k := verif.IntRange("k", -5, 6)
		v = float64(k) / 2
		if k%2 == 0 {
			text = itoaG(k / 2)
		} else if k < 0 {
			text = "-" + itoaG(-k/2) + ".5"
		} else {
			text = itoaG(k/2) + ".5"
		}
	}
	doc := Map{"t": []any{Map{"v": v}}}
	got, err := runQueryQuiet(doc, "SELECT CHANGETYPE(v, '"+names[target]+"') AS c FROM t")
	switch target {
	case 0, 4:
		n, bad := parseDecInt(text)
		if bad {
			verif.Assert(err != nil, "not-an-integer-is-error")
		} else {
			verif.Assert(err == nil && verif.Eq(got, []any{Map{"c": n}}), "integer")
		}
	case 1:
		for i := 0; i < len(text); i++ {
			if text[i] == '_' {
				verif.Assume(false) // Go's float syntax accepts digit-separating underscores (1_1 is 11): outside the reference
			}
		}
		f, bad := parseDecimal(text)
		if bad {
			verif.Assert(err != nil, "not-a-number-is-error")
		} else {
			verif.Assert(err == nil && verif.Eq(got, []any{Map{"c": f}}), "double")
		}
	case 2:
		verif.Assert(err == nil && verif.Eq(got, []any{Map{"c": text}}), "string")
	case 3:
		verif.Assert(err == nil && verif.Eq(got, []any{Map{"c": []any{v}}}), "array")
	default:
		verif.Assert(err != nil, "unknown-type-is-error")
	}
	verif.Reach("end")
}

type fixedArity struct {
	name  string
	arity int
}

var c18Arities = []fixedArity{
	{"FIRST", 1}, {"LAST", 1}, {"ELEMENTAT", 2}, {"DEFAULTKEY", 1}, {"CHANGETYPE", 2}, {"UNWIND", 1}, {"IF", 3},
	{"DATERANGE", 2}, {"CONSTANT", 1}, {"GETVAR", 1}, {"SETVAR", 2}, {"RAISE_WHEN", 2}, {"RAISE", 1}, {"REPORT_WHEN", 2},
	{"REPORT", 1}, {"TO_LOWER", 1}, {"TO_UPPER", 1}, {"HASH", 2}, {"ENCODE", 2}, {"DECODE", 2}, {"TIMESTAMP", 0},
}

// H_C18_arity: every fixed-arity function rejects every other argument
// count (0 .. arity+2) with an error; no result, no panic.
func H_C18_arity() {
	fi := verif.Choose("func", len(c18Arities))
	k := verif.Choose("args", 6)
	f := c18Arities[fi]
	if k == f.arity || k > f.arity+2 {
		verif.Assume(false)
	}
	args := ""
	for i := 0; i < k; i++ {
		if i > 0 {
			args += ", "
		}
		args += []string{"arr", "1", "s", "b", "x", "nul"}[i]
	}
	doc := Map{"t": []any{Map{"arr": []any{float64(1), float64(2)}, "s": "base64", "b": true, "x": float64(3), "nul": nil}}}
	got, err := runQueryQuiet(doc, "SELECT "+f.name+"("+args+") AS v FROM t", WithVars(map[string]any{}), WithConstants(map[string]any{"s": 1}))
	verif.Assert(err != nil && len(got) == 0, "wrong-argument-count-is-error")
	verif.Reach("end")
}

// H_C18_casemaps: TO_UPPER / TO_LOWER are the Unicode simple case maps, rune
// by rune, on strings of one or two runes drawn from scripts where upper,
// lower and title case differ (Latin digraphs, Georgian, Greek final sigma,
// dotted/dotless i, sharp s, Cyrillic, Armenian ligature, invalid UTF-8).
func H_C18_casemaps() {
	runes := []string{"a", "Z", "é", "ß", "ÿ", "İ", "ı", "Ǆ", "ǅ", "ǆ", "ǲ", "ς", "Σ", "ж", "ა", "ქ", "Ა", "և", "ﬀ", "ⅰ", "𐐨", "\xff", "1"}
	i := verif.Choose("r1", len(runes))
	j := verif.Choose("r2", len(runes)+1)
	s := runes[i]
	if j < len(runes) {
		s += runes[j]
	}
	m, err := oneRow(Map{"t": []any{Map{"s": s}}}, "SELECT TO_UPPER(s) AS u, TO_LOWER(s) AS l FROM t")
	verif.Assert(err == nil, "no-error")
	if err != nil {
		return
	}
	up, lo := "", ""
	for _, r := range s {
		up += string(unicode.ToUpper(r))
		lo += string(unicode.ToLower(r))
	}
	verif.Assert(verif.Eq(m["u"], up), "upper-is-unicode-simple-map")
	verif.Assert(verif.Eq(m["l"], lo), "lower-is-unicode-simple-map")
	verif.Reach("end")
}

// H_C18_argspelling: an argument written as a negative literal or as an
// arithmetic expression reaches the function as its value.
func H_C18_argspelling() {
	form := verif.Choose("form", 7)
	k := verif.IntRange("x", -3, 4)
	x := float64(k)
	doc := Map{"t": []any{Map{"x": x, "s": "t=", "b": true}}}
	var sql string
	var want any
	switch form {
	case 0:
		sql, want = "SELECT CONCAT(s, -5) AS v FROM t", "t=-5"
	case 1:
		sql, want = "SELECT CONCAT(s, x * 2) AS v FROM t", "t="+itoaG(2*k)
	case 2:
		sql, want = "SELECT ARRAY(1, -2, 1 + 2, x - 1) AS v FROM t", []any{float64(1), float64(-2), float64(3), x - 1}
	case 3:
		sql, want = "SELECT CHANGETYPE(-1.5, 'string') AS v FROM t", "-1.5"
	case 4:
		sql, want = "SELECT FIRST(ARRAY(-1, x)) AS v FROM t", float64(-1)
	case 5:
		sql, want = "SELECT CONCAT(IF(b, -1, 1 + 1), s) AS v FROM t", "-1t="
	case 6:
		sql, want = "SELECT CHANGETYPE(x + 1, 'array') AS v, ELEMENTAT(ARRAY(x, x + 1), 2 - 1) AS e FROM t", []any{x + 1}
	}
	m, err := oneRow(doc, sql)
	verif.Assert(err == nil, "no-error")
	if err != nil {
		return
	}
	verif.Assert(verif.Eq(m["v"], want), "argument-value")
	if form == 6 {
		verif.Assert(verif.Eq(m["e"], x+1), "argument-value")
	}
	verif.Reach("end")
}
