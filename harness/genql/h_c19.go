package genql

import verif "github.com/vedadiyan/genql/zz_verif"

var c19Queries = []string{
	"SELECT a FROM t WHERE vfault(a) > ?",
	"SELECT vfault(a) AS v FROM t WHERE a > ?",
	"SELECT a, COUNT(*) AS n FROM t WHERE a > ? GROUP BY a HAVING vfault(1) = 1",
	"SELECT * FROM t x JOIN t y ON x.a <= y.a AND vfaultb() WHERE x.a > ?",
	"SELECT * FROM t x LEFT JOIN t y ON x.a >= y.a AND vfaultb() WHERE x.a > ?",
	"SELECT * FROM t x PARALLEL JOIN t y ON x.a <= y.a AND vfaultb() WHERE x.a > ?",
	"WITH c AS (SELECT vfault(a) AS a FROM t WHERE a > ?) SELECT a FROM c",
	"SELECT u.v AS v FROM (SELECT vfault(a) AS v FROM t WHERE a > ?) u",
	"SELECT a, (SELECT vfault(p) AS f FROM items) AS sub FROM t WHERE a > ?",
	"SELECT a FROM t WHERE a IN (SELECT vfault(p) AS f FROM items) OR a > ?",
	"SELECT a FROM t WHERE EXISTS (SELECT p FROM items WHERE vfault(p) > ?)",
	"SELECT vfault(a) AS v FROM t WHERE a > ? UNION ALL SELECT a AS v FROM t",
	"SELECT a AS v FROM t WHERE a > ? UNION ALL SELECT vfault(a) AS v FROM t",
	"SELECT RAISE_WHEN(a > ?, 'boom'), a FROM t",
	"SELECT a + s AS v FROM t WHERE a > ?",
	"SELECT a FROM t WHERE a > ? AND s",
	"SELECT a FROM t WHERE a > ? ORDER BY vfault(a)",
	"SELECT a, vfault(a) AS k FROM t WHERE a > ? GROUP BY vfault(a)",
	"SELECT a FROM t WHERE a BETWEEN vfault(?) AND 9",
	"SELECT a FROM t WHERE a BETWEEN ? AND vfault(9)",
	"SELECT a FROM t WHERE vfault(a) NOT BETWEEN ? AND 9",
	"SELECT a FROM t WHERE a NOT BETWEEN vfault(?) AND vfault(9)",
	"SELECT a FROM t WHERE a IN (?, vfault(a), 3)",
	"SELECT a FROM t WHERE a NOT IN (vfault(a), ?)",
	"SELECT a FROM t WHERE vfault(a) IN (?, 3)",
	"SELECT CASE WHEN vfault(a) > ? THEN 1 ELSE 2 END AS v FROM t",
	"SELECT CASE WHEN a > ? THEN vfault(a) ELSE vfault(1) END AS v FROM t",
	"SELECT a + vfault(a) AS v, vfault(a) * ? AS w FROM t",
	"SELECT -vfault(a) AS v FROM t WHERE a > ?",
	"SELECT a FROM t WHERE NOT (vfault(a) > ?)",
	"SELECT a FROM t WHERE a > ? OR vfault(a) > 1",
	"SELECT a FROM t WHERE a > ? AND vfault(a) > 1",
	"SELECT a FROM t WHERE vfault(a) IS NOT NULL AND a > ?",
	"SELECT a FROM t WHERE s LIKE vfault('s%') AND a > ?",
	"SELECT IF(a > ?, vfault(a), 1) AS v, CONCAT(vfault('x'), 'y') AS c FROM t",
	"SELECT ARRAY(a, vfault(a)) AS v, (vfault(a), 2) AS t2 FROM t WHERE a > ?",
	"SELECT SUBSTRING(s, vfault(0), 1) AS v FROM t WHERE a > ?",
	"SELECT FIRST(ARRAY(vfault(a))) AS v FROM t WHERE a > ?",
	"SELECT SUM(a) AS s FROM t WHERE a > ? HAVING vfault(1) = 1",
	"SELECT COUNT(*) AS n FROM t WHERE vfault(a) > ?",
	"SELECT a FROM t WHERE a > ? LIMIT 1",
}

// H_C19_faults: a user function failing at its k-th invocation (any k), a
// RAISE firing or a type error, in every clause position, surfaces as an
// error and no rows; the next query on the same input behaves as if the
// failed one had never run.
func H_C19_faults() {
	qi := verif.Choose("query", len(c19Queries))
	n := verif.Choose("rows", maxRows(2, 3)) + 1
	faultAt, faultCalls = verif.Choose("fault-at", 5), 0
	RegisterFunction("vfault", faultFunc)
	RegisterFunction("vfaultb", faultBoolFunc)
	verif.Opt("maporder", 1)
	doc, rows := nestedDoc(n, 1)
	for _, r := range rows {
		r["s"] = "str"
	}
	pristine := Map{"t": deepCopyRows(rows), "g": float64(5)}
	c := verif.F64("c")
	sql := verif.SQL(c19Queries[qi], c)
	got, err := runQueryQuiet(doc, sql)
	fired := faultAt != 0 && faultCalls >= faultAt
	if fired {
		verif.Assert(err != nil, "fault-surfaces-as-error")
		verif.Assert(len(got) == 0, "no-rows-with-error")
	}
	if err != nil {
		verif.Assert(len(got) == 0, "no-rows-with-error")
	}
	// follow-up query on the same input vs. on a pristine copy
	faultAt = 0
	follow := "SELECT a, s, (SELECT p FROM items) AS sub FROM t"
	r1, e1 := runQueryQuiet(doc, follow)
	r2, e2 := runQueryQuiet(pristine, follow)
	verif.Assert((e1 == nil) == (e2 == nil), "follow-up-same-status")
	if e1 == nil && e2 == nil {
		verif.Assert(verif.Eq(r1, r2), "follow-up-same-result")
	}
	verif.Reach("end")
}

func faultBoolFunc(q *Query, cur Map, o *FunctionOptions, args []any) (any, error) {
	faultCalls++
	if faultCalls == faultAt {
		return nil, EXPECTATION_FAILED.Extend("injected fault")
	}
	return true, nil
}
