package genql

import verif "github.com/vedadiyan/genql/zz_verif"

var c19Queries = []string{
	"SELECT a FROM t WHERE vfault(a) > ?",
	"SELECT vfault(a) AS v FROM t WHERE a > ?",
	"SELECT a, COUNT(*) AS n FROM t WHERE a > ? GROUP BY a HAVING vfault(1) = 1",
	"SELECT * FROM t x JOIN t y ON x.a <= y.a AND vfaultb() WHERE x.a > ?",
	"SELECT * FROM t x LEFT JOIN t y ON x.a >= y.a AND vfaultb() WHERE x.a > ?",
	"SELECT * FROM t x PARALLEL JOIN t y ON x.a <= y.a AND vfaultb() WHERE x.a > ?",
	"WITH c AS (SELECT vfault(a) AS a FROM t WHERE a > ?) SELECT a FROM c",
	"SELECT u.v AS v FROM (SELECT vfault(a) AS v FROM t WHERE a > ?) u",
	"SELECT a, (SELECT vfault(p) AS f FROM items) AS sub FROM t WHERE a > ?",
	"SELECT a FROM t WHERE a IN (SELECT vfault(p) AS f FROM items) OR a > ?",
	"SELECT a FROM t WHERE EXISTS (SELECT p FROM items WHERE vfault(p) > ?)",
	"SELECT vfault(a) AS v FROM t WHERE a > ? UNION ALL SELECT a AS v FROM t",
	"SELECT a AS v FROM t WHERE a > ? UNION ALL SELECT vfault(a) AS v FROM t",
	"SELECT RAISE_WHEN(a > ?, 'boom'), a FROM t",
	"SELECT a + s AS v FROM t WHERE a > ?",
	"SELECT a FROM t WHERE a > ? AND s",
	"SELECT a FROM t WHERE a > ? ORDER BY vfault(a)",
	"SELECT a, vfault(a) AS k FROM t WHERE a > ? GROUP BY vfault(a)",
	"SELECT a FROM t WHERE a BETWEEN vfault(?) AND 9",
	"SELECT a FROM t WHERE a BETWEEN ? AND vfault(9)",
	"SELECT a FROM t WHERE vfault(a) NOT BETWEEN ? AND 9",
	"SELECT a FROM t WHERE a NOT BETWEEN vfault(?) AND vfault(9)",
	"SELECT a FROM t WHERE a IN (?, vfault(a), 3)",
	"SELECT a FROM t WHERE a NOT IN (vfault(a), ?)",
	"SELECT a FROM t WHERE vfault(a) IN (?, 3)",
	"SELECT CASE WHEN vfault(a) > ? THEN 1 ELSE 2 END AS v FROM t",
	"SELECT CASE WHEN a > ? THEN vfault(a) ELSE vfault(1) END AS v FROM t",
	"SELECT a + vfault(a) AS v, vfault(a) * ? AS w FROM t",
	"SELECT -vfault(a) AS v FROM t WHERE a > ?",
	"SELECT a FROM t WHERE NOT (vfault(a) > ?)",
	"SELECT a FROM t WHERE a > ? OR vfault(a) > 1",
	"SELECT a FROM t WHERE a > ? AND vfault(a) > 1",
	"SELECT a FROM t WHERE vfault(a) IS NOT NULL AND a > ?",
	"SELECT a FROM t WHERE s LIKE vfault('s%') AND a > ?",
	"SELECT IF(a > ?, vfault(a), 1) AS v, CONCAT(vfault('x'), 'y') AS c FROM t",
	"SELECT ARRAY(a, vfault(a)) AS v, (vfault(a), 2) AS t2 FROM t WHERE a > ?",
	"SELECT SUBSTRING(s, vfault(0), 1) AS v FROM t WHERE a > ?",
	"SELECT FIRST(ARRAY(vfault(a))) AS v FROM t WHERE a > ?",
	"SELECT SUM(a) AS s FROM t WHERE a > ? HAVING vfault(1) = 1",
	"SELECT COUNT(*) AS n FROM t WHERE vfault(a) > ?",
	"SELECT a FROM t WHERE a > ? LIMIT 1",
	"SELECT a, AWAIT(vfault(a)) AS v FROM t WHERE a > ?",
	"SELECT a, (SELECT AWAIT(vfault(p)) AS w FROM items) AS sub FROM t WHERE a > ?",
	// a synchronous step among the arguments of a background call
	"SELECT a, SPIN.vnoop(vfault(a)) FROM t WHERE a > ?",
	"SELECT a, SPIN.vnoop(a + s) FROM t WHERE a > ?",
	"SELECT a, ASYNC.vnoop(vfault(a)) AS v FROM t WHERE a > ?",
	"SELECT a, SPINASYNC.vnoop(1, vfault(a)) FROM t WHERE a > ?",
	"SELECT a, ONCE.vnoop(vfault(a)) AS v FROM t WHERE a > ?",
}

// H_C19_faults: a user function failing at its k-th invocation (any k), a
// RAISE firing or a type error, in every clause position, surfaces as an
// error and no rows; the next query on the same input behaves as if the
// failed one had never run.
func H_C19_faults() {
	qi := verif.Choose("query", len(c19Queries))
	n := verif.Choose("rows", maxRows(2, 3)) + 1
	faultAt, faultCalls = verif.Choose("fault-at", 5), 0
	RegisterFunction("vfault", faultFunc)
	RegisterFunction("vfaultb", faultBoolFunc)
	verif.Opt("maporder", 1)
	doc, rows := nestedDoc(n, 1)
	for _, r := range rows {
		r["s"] = "str"
	}
	pristine := Map{"t": deepCopyRows(rows), "g": float64(5)}
	c := verif.F64("c")
	sql := verif.SQL(c19Queries[qi], c)
	RegisterFunction("vnoop", func(q *Query, cur Map, o *FunctionOptions, args []any) (any, error) { return nil, nil })
	got, err := runQueryQuiet(doc, sql)
	verif.Drain() // background calls still running have finished before the counters are read
	fired := faultAt != 0 && faultCalls >= faultAt
	if fired {
		verif.Assert(err != nil, "fault-surfaces-as-error")
		verif.Assert(len(got) == 0, "no-rows-with-error")
	}
	if err != nil {
		verif.Assert(len(got) == 0, "no-rows-with-error")
	}
	// follow-up query on the same input vs. on a pristine copy
	faultAt = 0
	follow := "SELECT a, s, (SELECT p FROM items) AS sub FROM t"
	r1, e1 := runQueryQuiet(doc, follow)
	r2, e2 := runQueryQuiet(pristine, follow)
	verif.Assert((e1 == nil) == (e2 == nil), "follow-up-same-status")
	if e1 == nil && e2 == nil {
		verif.Assert(verif.Eq(r1, r2), "follow-up-same-result")
	}
	verif.Reach("end")
}

func faultBoolFunc(q *Query, cur Map, o *FunctionOptions, args []any) (any, error) {
	faultCalls++
	if faultCalls == faultAt {
		return nil, EXPECTATION_FAILED.Extend("injected fault")
	}
	return true, nil
}

var c19TypeErrQueries = []string{
	"SELECT id, o FROM t ORDER BY o.b",
	"SELECT id, o FROM t ORDER BY o.b DESC",
	"SELECT id, o, z FROM t ORDER BY z, o.b",
	"SELECT id FROM t WHERE o.b > 0",
	"SELECT id, o.b AS v FROM t",
	"SELECT o.b AS k, COUNT(*) AS n FROM t GROUP BY o.b",
	"SELECT id, COUNT(*) AS n FROM t GROUP BY id HAVING MAX(o.b) > 0",
	"SELECT DISTINCT o.b AS v FROM t",
	"SELECT x.id AS l, y.id AS r FROM t x JOIN t y ON `x.o.b` = `y.o.b`",
	"SELECT x.id AS l, y.id AS r FROM t x LEFT JOIN t y ON `x.o.b` < `y.o.b`",
	"SELECT id FROM t WHERE id IN (SELECT o.b AS v FROM `<-t`)",
	"SELECT SUM(o.b) AS s FROM t",
	"SELECT id FROM t WHERE o.b BETWEEN 0 AND 9",
	"SELECT id, CASE WHEN o.b > 0 THEN 1 ELSE 0 END AS c FROM t",
	"SELECT id FROM t UNION SELECT o.b AS id FROM t",
}

// H_C19_typeerrors: one row holds a number where every other row holds an
// object; a path through it (`o.b`) is a type error in whichever clause
// reads it, wherever the offending row stands: the query fails, no rows.
func H_C19_typeerrors() {
	qi := verif.Choose("query", len(c19TypeErrQueries))
	n := verif.Choose("rows", maxRows(2, 3)) + 1
	bad := verif.Choose("offending-row", 4)
	if bad > n {
		verif.Assume(false)
	}
	rows := make([]any, n)
	for i := range rows {
		x := verif.F64("b")
		verif.Assume(x == x)
		rows[i] = Map{"id": float64(i), "z": float64(1), "o": Map{"b": x}}
	}
	if qi < 3 && n < 2 {
		verif.Assume(false) // a sort key is only read when two rows are compared
	}
	if bad > 0 {
		rows[bad-1].(Map)["o"] = float64(7) // `.b` is not valid on a number
	}
	got, err := runQueryQuiet(Map{"t": rows}, c19TypeErrQueries[qi])
	if bad > 0 {
		verif.Assert(err != nil, "type-error-surfaces-as-error")
	}
	if err != nil {
		verif.Assert(len(got) == 0, "no-rows-with-error")
	}
	verif.Reach("end")
}

var c19RepeatQueries = []string{
	"SELECT id, `tags::[first]` AS tag FROM t",
	"SELECT id, `tags::[(1:2:3)]` AS tag FROM t",
	"SELECT id, `tags::[0]::zz[` AS tag FROM t",
	"SELECT id FROM `t::[zz]`",
	"SELECT id, `o.b` AS v FROM t WHERE `tags::[9]` IS NULL",
	"SELECT id FROM t WHERE id = vfault(id)",
	"SELECT id, CHANGETYPE(tags, 'double') AS v FROM t",
	"SELECT id FROM t ORDER BY `tags::[first]`",
	"SELECT id, (SELECT q FROM `<-t::[nine]`) AS s FROM t",
	"WITH c AS (SELECT id FROM `t::[x]`) SELECT id FROM c",
}

// H_C19_repeat: a failing query fails again, in the same way, when it is
// issued again on an equal input, and a well-formed query issued after it
// is not affected: failures leave nothing behind in process-wide state.
func H_C19_repeat() {
	qi := verif.Choose("query", len(c19RepeatQueries))
	faultAt, faultCalls = 1, 0
	RegisterFunction("vfault", faultFunc)
	x := verif.F64("b")
	verif.Assume(x == x)
	doc := func() Map {
		return Map{"t": []any{Map{"id": float64(1), "tags": []any{"a", "b"}, "o": Map{"b": x}}, Map{"id": float64(2), "tags": []any{"c"}, "o": Map{"b": x}}}}
	}
	r1, e1 := runQueryQuiet(doc(), c19RepeatQueries[qi])
	faultCalls = 0
	r2, e2 := runQueryQuiet(doc(), c19RepeatQueries[qi])
	verif.Assert((e1 == nil) == (e2 == nil), "same-status-when-repeated")
	if e1 != nil {
		verif.Assert(len(r1) == 0 && len(r2) == 0, "no-rows-with-error")
	} else {
		verif.Assert(verif.Eq(r1, r2), "same-result-when-repeated")
	}
	// a healthy query over the same selectors' prefixes afterwards
	faultAt = 0
	got, err := runQueryQuiet(doc(), "SELECT id, tags, `tags[0]` AS f FROM t")
	verif.Assert(err == nil && verif.Eq(got, []any{Map{"id": float64(1), "tags": []any{"a", "b"}, "f": "a"}, Map{"id": float64(2), "tags": []any{"c"}, "f": "c"}}), "later-query-unaffected")
	verif.Reach("end")
}

// H_C19_nested: a fault inside an inner array of a nested FROM fails the
// whole query, wherever the inner array stands and whichever call fails.
func H_C19_nested() {
	form := verif.Choose("form", 3)
	faultAt, faultCalls = verif.Choose("fault-at", 6), 0
	RegisterFunction("vfault", faultFunc)
	x := verif.F64("a")
	verif.Assume(x == x)
	r := func(v float64) any { return Map{"a": v} }
	doc := Map{"n": []any{[]any{r(x), r(2)}, []any{r(3), r(x + 1)}, []any{r(5)}}}
	sql := []string{"SELECT a FROM n WHERE vfault(a) >= 0 OR a > 0", "SELECT vfault(a) AS v FROM n", "SELECT a FROM `mix=>n` WHERE vfault(a) >= 0 OR a > 0"}[form]
	got, err := runQueryQuiet(doc, sql)
	fired := faultAt != 0 && faultCalls >= faultAt
	if fired {
		verif.Assert(err != nil, "fault-surfaces-as-error")
	}
	if err != nil {
		verif.Assert(len(got) == 0, "no-rows-with-error")
	} else {
		verif.Assert(len(got) == 3 || form == 2, "nesting-kept")
	}
	verif.Reach("end")
}

// H_C19_reexec: a prepared query that failed fails again, in the same way,
// when it is executed again under the same conditions (nothing of the failed
// run - memoised results, partial rows - survives in the query object).
func H_C19_reexec() {
	form := verif.Choose("form", 4)
	faultAt, faultCalls = 1+verif.Choose("fault-at", 2), 0
	RegisterFunction("vfault", faultFunc)
	x := verif.F64("a")
	verif.Assume(x == x)
	doc := Map{"t": []any{Map{"id": float64(1), "a": x}, Map{"id": float64(2), "a": x}}}
	sql := []string{"SELECT id, ONCE.vfault(a) AS v FROM t", "SELECT id, vfault(a) AS v FROM t", "SELECT id FROM t WHERE vfault(a) >= 0 OR id > 0", "SELECT id, GLOBAL.vfault((SELECT a FROM t)) AS v FROM t"}[form]
	q, err := New(doc, sql)
	if err != nil {
		verif.Reach("end")
		return
	}
	r1, e1 := q.Exec()
	calls1 := faultCalls
	faultCalls = 0
	r2, e2 := q.Exec()
	if e1 != nil {
		verif.Assert(len(r1) == 0, "no-rows-with-error")
		// the same fault schedule (the call counter was reset): the second execution meets it again
		_ = calls1
		verif.Assert(e2 != nil && len(r2) == 0, "fails-again-when-executed-again")
	}
	verif.Reach("end")
}
