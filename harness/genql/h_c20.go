package genql

import verif "github.com/vedadiyan/genql/zz_verif"

// H_C20_registers: SETVAR/GETVAR behave as per-key registers in evaluation
// order (rows in source order, select-list items left to right).
func H_C20_registers() {
	n := verif.Choose("rows", 3)
	// a select list of 4 operations over two keys, each SETVAR or GETVAR
	ops := make([]int, 4) // 0 GETVAR k1, 1 GETVAR k2, 2 SETVAR k1, 3 SETVAR k2
	for i := range ops {
		ops[i] = verif.Choose("op", 4)
	}
	doc, rows := numTable(n, "a")
	sql := "SELECT a"
	for i, op := range ops {
		switch op {
		case 0:
			sql += ", GETVAR('k1') AS g" + string(rune('0'+i))
		case 1:
			sql += ", GETVAR('k2') AS g" + string(rune('0'+i))
		case 2:
			sql += ", SETVAR('k1', a + " + string(rune('0'+i)) + ")"
		case 3:
			sql += ", SETVAR('k2', a * 2)"
		}
	}
	sql += " FROM t"
	vars := map[string]any{}
	got, ok := runQuery(doc, sql, WithVars(vars))
	if !ok {
		return
	}
	// register model
	reg := map[string]any{}
	var want []any
	for _, r := range rows {
		a := f64of(r["a"])
		row := Map{"a": a}
		for i, op := range ops {
			switch op {
			case 0:
				row["g"+string(rune('0'+i))] = reg["k1"]
			case 1:
				row["g"+string(rune('0'+i))] = reg["k2"]
			case 2:
				reg["k1"] = a + float64(i)
			case 3:
				reg["k2"] = a * 2
			}
		}
		want = append(want, row)
	}
	verif.Assert(verif.Eq(got, want), "register-semantics")
	verif.Assert(verif.Eq(vars, reg), "final-map")
	// a later query given the same map observes those values
	got2, ok := runQuery(Map{"t": []any{Map{"z": float64(0)}}}, "SELECT GETVAR('k1') AS k1, GETVAR('k2') AS k2, GETVAR('nosuch') AS k3 FROM t", WithVars(vars))
	if !ok {
		return
	}
	verif.Assert(verif.Eq(got2, []any{Map{"k1": reg["k1"], "k2": reg["k2"], "k3": nil}}), "later-query-sees-values")
	verif.Reach("end")
}
