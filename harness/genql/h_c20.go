package genql

import verif "github.com/vedadiyan/genql/zz_verif"

// H_C20_registers: SETVAR/GETVAR behave as per-key registers in evaluation
// order (rows in source order, select-list items left to right).
func H_C20_registers() {
	n := verif.Choose("rows", 3)
	// a select list of 4 operations over two keys, each SETVAR or GETVAR
	ops := make([]int, 4) // 0 GETVAR k1, 1 GETVAR k2, 2 SETVAR k1, 3 SETVAR k2
	for i := range ops {
		ops[i] = verif.Choose("op", 4)
	}
	doc, rows := numTable(n, "a")
	sql := "SELECT a"
	for i, op := range ops {
		switch op {
		case 0:
			sql += ", GETVAR('k1') AS g" + string(rune('0'+i))
		case 1:
			sql += ", GETVAR('k2') AS g" + string(rune('0'+i))
		case 2:
			sql += ", SETVAR('k1', a + " + string(rune('0'+i)) + ")"
		case 3:
			sql += ", SETVAR('k2', a * 2)"
		}
	}
	sql += " FROM t"
	vars := map[string]any{}
	got, ok := runQuery(doc, sql, WithVars(vars))
	if !ok {
		return
	}
	// register model
	reg := map[string]any{}
	var want []any
	for _, r := range rows {
		a := f64of(r["a"])
		row := Map{"a": a}
		for i, op := range ops {
			switch op {
			case 0:
				row["g"+string(rune('0'+i))] = reg["k1"]
			case 1:
				row["g"+string(rune('0'+i))] = reg["k2"]
			case 2:
				reg["k1"] = a + float64(i)
			case 3:
				reg["k2"] = a * 2
			}
		}
		want = append(want, row)
	}
	verif.Assert(verif.Eq(got, want), "register-semantics")
	verif.Assert(verif.Eq(vars, reg), "final-map")
	// a later query given the same map observes those values
	got2, ok := runQuery(Map{"t": []any{Map{"z": float64(0)}}}, "SELECT GETVAR('k1') AS k1, GETVAR('k2') AS k2, GETVAR('nosuch') AS k3 FROM t", WithVars(vars))
	if !ok {
		return
	}
	verif.Assert(verif.Eq(got2, []any{Map{"k1": reg["k1"], "k2": reg["k2"], "k3": nil}}), "later-query-sees-values")
	verif.Reach("end")
}

// H_C20_kinds: registers hold values of every scalar kind exactly; a store
// is never skipped because the new value "looks like" the old one (the
// number 1 and the string "1", true and "true", NULL and "<nil>").
func H_C20_kinds() {
	exprs := []string{"1", "'1'", "TRUE", "'true'", "NULL", "'<nil>'", "n", "s", "o", "o2", "arr", "ARRAY(n, 1)"}
	x := verif.F64("n")
	verif.Assume(x == x)
	str := verif.Str("s", 2, "1a")
	obj, obj2, arr := Map{"p": x}, Map{"p": x}, []any{x, "e"}
	vals := []any{float64(1), "1", true, "true", nil, "<nil>", x, str, obj, obj2, arr, []any{x, float64(1)}}
	v1 := verif.Choose("v1", len(exprs))
	v2 := verif.Choose("v2", len(exprs))
	v3 := verif.Choose("v3", len(exprs))
	vars := map[string]any{}
	doc := Map{"t": []any{Map{"n": x, "s": str, "o": obj, "o2": obj2, "arr": arr}}}
	sql := "SELECT SETVAR('k', " + exprs[v1] + "), GETVAR('k') AS a, SETVAR('k', " + exprs[v2] + "), GETVAR('k') AS b, SETVAR('k', " + exprs[v3] + "), GETVAR('k') AS c FROM t"
	got, ok := runQuery(doc, sql, WithVars(vars))
	if !ok {
		return
	}
	verif.Assert(verif.Eq(got, []any{Map{"a": vals[v1], "b": vals[v2], "c": vals[v3]}}), "register-semantics")
	verif.Assert(verif.Eq(vars, map[string]any{"k": vals[v3]}), "final-map")
	verif.Reach("end")
}

// H_C20_keys: registers are named by the key's text: 1 and '1' are one
// register, 1 and 1.5 and 2.5 are different ones, large and fractional
// numeric keys keep their full text in the caller's map.
func H_C20_keys() {
	// (keys that differ in letter case, by a trailing blank, or only under
	// Unicode case folding are different registers)
	exprs := []string{"1", "1.5", "'1'", "2.5", "1000000", "'k'", "0.25", "'K'", "'k '", "'\u212a'", "'1E+06'"}
	texts := []string{"1", "1.5", "1", "2.5", "1e+06", "k", "0.25", "K", "k ", "\u212a", "1E+06"}
	k1 := verif.Choose("k1", len(exprs))
	k2 := verif.Choose("k2", len(exprs))
	k3 := verif.Choose("k3", len(exprs))
	g := verif.Choose("get", len(exprs))
	x := verif.F64("x")
	verif.Assume(x == x)
	vars := map[string]any{}
	doc := Map{"t": []any{Map{"x": x}}}
	sql := "SELECT SETVAR(" + exprs[k1] + ", x), SETVAR(" + exprs[k2] + ", x + 1), SETVAR(" + exprs[k3] + ", 'v3'), GETVAR(" + exprs[g] + ") AS g FROM t"
	got, ok := runQuery(doc, sql, WithVars(vars))
	if !ok {
		return
	}
	reg := map[string]any{}
	reg[texts[k1]] = x
	reg[texts[k2]] = x + 1
	reg[texts[k3]] = "v3"
	verif.Assert(verif.Eq(got, []any{Map{"g": reg[texts[g]]}}), "register-semantics")
	verif.Assert(verif.Eq(vars, reg), "final-map")
	verif.Reach("end")
}

// H_C20_prepared: the map is shared by reference for the lifetime of the
// queries: statements prepared up front and executed in sequence (in either
// order, also re-executed) see each other's stores, and the caller sees them
// in the map after every Exec.
func H_C20_prepared() {
	order := verif.Choose("order", 3)
	x := verif.F64("x")
	verif.Assume(x == x)
	vars := map[string]any{"seed": float64(7)}
	doc := func() Map { return Map{"t": []any{Map{"x": x}}} }
	writer, e1 := New(doc(), "SELECT SETVAR('total', x), SETVAR('seed', x + 1), GETVAR('seed') AS s FROM t", WithVars(vars))
	reader, e2 := New(doc(), "SELECT GETVAR('total') AS total, GETVAR('seed') AS seed, GETVAR('never') AS never FROM t", WithVars(vars))
	verif.Assert(e1 == nil && e2 == nil, "prepared")
	if e1 != nil || e2 != nil {
		return
	}
	switch order {
	case 0:
		// writer, then reader (both prepared before either ran)
		_, err := writer.Exec()
		verif.Assert(err == nil && verif.Eq(vars, map[string]any{"total": x, "seed": x + 1}), "caller-sees-stores")
		got, err := reader.Exec()
		verif.Assert(err == nil && verif.Eq(got, []any{Map{"total": x, "seed": x + 1, "never": nil}}), "later-query-sees-stores")
	case 1:
		// reader first (nothing stored yet), then writer, then the reader again
		got, err := reader.Exec()
		verif.Assert(err == nil && verif.Eq(got, []any{Map{"total": nil, "seed": float64(7), "never": nil}}), "reads-initial-map")
		_, err = writer.Exec()
		verif.Assert(err == nil, "writer-ok")
		got, err = reader.Exec()
		verif.Assert(err == nil && verif.Eq(got, []any{Map{"total": x, "seed": x + 1, "never": nil}}), "re-executed-query-sees-stores")
	case 2:
		// the caller changes the map between preparation and execution
		vars["total"] = "outside"
		got, err := reader.Exec()
		verif.Assert(err == nil && verif.Eq(got, []any{Map{"total": "outside", "seed": float64(7), "never": nil}}), "reads-callers-update")
		_, err = writer.Exec()
		verif.Assert(err == nil && verif.Eq(vars, map[string]any{"total": x, "seed": x + 1}), "caller-sees-stores")
	}
	verif.Reach("end")
}

// H_C20_nested: the variable map is the same one for rows inside inner
// arrays of a nested FROM (also when rows and arrays are siblings).
func H_C20_nested() {
	shape := verif.Choose("shape", 2)
	x := verif.F64("x")
	verif.Assume(x == x)
	r := func(id float64) any { return Map{"id": id} }
	var t []any
	switch shape {
	case 0:
		t = []any{[]any{r(1), r(2)}, []any{r(3)}}
	case 1:
		t = []any{r(1), []any{r(2), r(3)}}
	}
	vars := map[string]any{"k": x}
	got, ok := runQuery(Map{"t": t}, "SELECT id, GETVAR('k') AS b, SETVAR('last', id), GETVAR('last') AS l FROM t", WithVars(vars))
	if !ok {
		return
	}
	row := func(id float64) any { return Map{"id": id, "b": x, "l": id} }
	var want []any
	switch shape {
	case 0:
		want = []any{[]any{row(1), row(2)}, []any{row(3)}}
	case 1:
		want = []any{row(1), []any{row(2), row(3)}}
	}
	verif.Assert(verif.Eq(got, want), "registers-inside-inner-arrays")
	if shape == 0 {
		// (with rows and arrays as siblings the inner arrays are evaluated while
		// the level is scanned and the plain rows after it: source order is
		// only claimed for homogeneous levels)
		verif.Assert(verif.Eq(vars, map[string]any{"k": x, "last": float64(3)}), "final-map")
	}
	verif.Reach("end")
}
