package genql

import verif "github.com/vedadiyan/genql/zz_verif"

var cmpOps = []string{"=", "!=", "<", "<=", ">", ">="}

// refCmp is the SQL meaning of `x op y` on numbers.
func refCmp(op int, x, y float64) bool {
	switch op {
	case 0:
		return x == y
	case 1:
		return x != y
	case 2:
		return x < y
	case 3:
		return x <= y
	case 4:
		return x > y
	default:
		return x >= y
	}
}

// refCmpStr is the SQL meaning of `x op y` on strings (byte-wise order).
func refCmpStr(op int, x, y string) bool {
	switch op {
	case 0:
		return x == y
	case 1:
		return x != y
	case 2:
		return x < y
	case 3:
		return x <= y
	case 4:
		return x > y
	default:
		return x >= y
	}
}

// runQuery runs New+Exec and asserts that neither fails.
func runQuery(doc Map, sql string, opts ...QueryOption) ([]any, bool) {
	q, err := New(doc, sql, opts...)
	verif.Assert(err == nil, "new-no-error")
	if err != nil {
		return nil, false
	}
	got, err := q.Exec()
	verif.Assert(err == nil, "exec-no-error")
	if err != nil {
		return nil, false
	}
	// a prepared query can be executed again: same rows (queries whose calls
	// have effects of their own - variables, counted or asynchronous calls -
	// are executed once)
	if !hasAny(sql, "SETVAR", "ASYNC", "SPIN", "ONCE", "vfault", "vfail", "vpanic", "AWAIT", "GROUP BY", " JOIN ") { // (grouping and joins: map-order decisions would be taken twice)
		again, err := q.Exec()
		verif.Assert(err == nil && verif.Eq(again, got), "same-result-when-executed-again")
	}
	return got, true
}

func hasAny(s string, words ...string) bool {
	for _, w := range words {
		for i := 0; i+len(w) <= len(s); i++ {
			if s[i:i+len(w)] == w {
				return true
			}
		}
	}
	return false
}

// sameRows asserts that got is exactly the sequence want (row contents; a
// `SELECT *` copies each kept row into a fresh object).
func sameRows(got []any, want []Map, label string) {
	verif.Assert(verif.Eq(got, anyRows(want)), label)
}

func anyRows(rows []Map) []any {
	out := make([]any, len(rows))
	for i, r := range rows {
		out[i] = r
	}
	return out
}

// strTable builds {"t": [ {c: s}, ... ]} with n symbolic string cells.
func strTable(n int, maxLen int, alphabet string, cols ...string) (Map, []Map) {
	rows := make([]Map, n)
	arr := make([]any, n)
	for i := 0; i < n; i++ {
		r := Map{}
		for _, c := range cols {
			r[c] = verif.Str(c, maxLen, alphabet)
		}
		rows[i] = r
		arr[i] = r
	}
	return Map{"t": arr}, rows
}

func f64of(v any) float64 { return v.(float64) }
func strof(v any) string  { return v.(string) }

// maxRows is the table-size bound of the current tier.
func maxRows(quick, thorough int) int {
	if verif.Tier() == 1 {
		return thorough
	}
	return quick
}
