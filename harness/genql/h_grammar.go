package genql

import verif "github.com/vedadiyan/genql/zz_verif"

// A small expression grammar shared by the grammar-driven harnesses:
//
//	E := a | b | zz (missing key) | ? (constant) | vfault(a)      leaves
//	   | (E op E)            op ∈ + - * /
//	   | CASE WHEN x cmp y THEN E ELSE E END     (x, y: never NULL)
//
// Trees are enumerated with verif.Choose (every tree within the size bound
// is a separate set of paths); values are symbolic.
type gExpr struct {
	kind     int // 0 leaf, 1 binary, 2 case
	leaf     int // 0 a, 1 b, 2 zz, 3 const, 4 vfault(a)
	op       int
	l, r     *gExpr
	cl, cr   int // case condition operands (0 a, 3 const)
	cop      int // 0 <, 1 =, 2 >=
	withFail bool
}

const (
	gLeafA = iota
	gLeafB
	gLeafMissing
	gLeafConst
	gLeafFault
)

func genLeaf(label string, withFault bool) *gExpr {
	n := 4
	if withFault {
		n = 5
	}
	return &gExpr{kind: 0, leaf: verif.Choose(label+"-leaf", n)}
}

// genExpr enumerates trees: depth 0 = leaf; depth d = leaf | binary | case
// whose children have depth < d. To keep the count practical only one child
// of a depth-2 node may itself be composite.
func genExpr(label string, depth int, withFault bool) *gExpr {
	if depth == 0 {
		return genLeaf(label, withFault)
	}
	switch verif.Choose(label+"-kind", 3) {
	case 0:
		return genLeaf(label, withFault)
	case 1:
		e := &gExpr{kind: 1, op: verif.Choose(label+"-op", 4)}
		if depth >= 2 && verif.Choose(label+"-deep", 2) == 1 {
			e.l = genExpr(label+"l", depth-1, withFault)
			e.r = genLeaf(label+"r", withFault)
		} else if depth >= 2 {
			e.l = genLeaf(label+"l", withFault)
			e.r = genExpr(label+"r", depth-1, withFault)
		} else {
			e.l = genLeaf(label+"l", withFault)
			e.r = genLeaf(label+"r", withFault)
		}
		return e
	default:
		e := &gExpr{kind: 2, cop: verif.Choose(label+"-cop", 3)}
		e.cl = []int{gLeafA, gLeafConst}[verif.Choose(label+"-cl", 2)]
		e.cr = []int{gLeafA, gLeafConst}[verif.Choose(label+"-cr", 2)]
		if verif.Tier() == 0 && withFault {
			// quick tier: CASE branches are leaves in the fault-position harness
			e.l = genLeaf(label+"t", withFault)
		} else {
			e.l = genExpr(label+"t", depth-1, withFault)
		}
		e.r = genLeaf(label+"e", withFault)
		return e
	}
}

func leafSQL(leaf int, holes *[]any, c float64) string {
	switch leaf {
	case gLeafA:
		return "a"
	case gLeafB:
		return "b"
	case gLeafMissing:
		return "zz"
	case gLeafFault:
		return "vfault(a)"
	}
	*holes = append(*holes, c)
	return "?"
}

func (e *gExpr) sql(holes *[]any, c float64) string {
	switch e.kind {
	case 0:
		return leafSQL(e.leaf, holes, c)
	case 1:
		l := e.l.sql(holes, c)
		r := e.r.sql(holes, c)
		return "(" + l + " " + arithOps[e.op] + " " + r + ")"
	}
	cond := leafSQL(e.cl, holes, c) + " " + []string{"<", "=", ">="}[e.cop] + " " + leafSQL(e.cr, holes, c)
	t := e.l.sql(holes, c)
	el := e.r.sql(holes, c)
	return "CASE WHEN " + cond + " THEN " + t + " ELSE " + el + " END"
}

// faults counts the vfault leaves evaluated, in evaluation order, and
// reports whether the injected fault fires; eval returns the value (nil =
// NULL) of the expression on row r.
type gEnv struct {
	row     Map
	c       float64
	calls   int
	failAt  int
	faulted bool
}

func (e *gExpr) eval(env *gEnv) any {
	if env.faulted {
		return nil
	}
	switch e.kind {
	case 0:
		switch e.leaf {
		case gLeafA:
			return env.row["a"]
		case gLeafB:
			return env.row["b"]
		case gLeafMissing:
			return nil
		case gLeafFault:
			env.calls++
			if env.calls == env.failAt {
				env.faulted = true
				return nil
			}
			return env.row["a"]
		}
		return env.c
	case 1:
		l := e.l.eval(env)
		if env.faulted {
			return nil
		}
		// the engine evaluates the right operand only when the left one is not NULL
		if l == nil {
			return nil
		}
		r := e.r.eval(env)
		if env.faulted || r == nil {
			return nil
		}
		return refArith(e.op, f64of(l), f64of(r))
	}
	x, y := env.c, env.c
	if e.cl == gLeafA {
		x = f64of(env.row["a"])
	}
	if e.cr == gLeafA {
		y = f64of(env.row["a"])
	}
	var hold bool
	switch e.cop {
	case 0:
		hold = x < y
	case 1:
		hold = x == y
	default:
		hold = x >= y
	}
	if hold {
		return e.l.eval(env)
	}
	return e.r.eval(env)
}

// H_C02_grammar: every expression tree of the grammar (depth ≤ 2) in the
// select list: the value is the ordinary meaning of the expression, with
// NULL for a missing key and for arithmetic over a NULL operand.
func H_C02_grammar() {
	n := verif.Choose("rows", 2) + verif.Tier()
	e := genExpr("e", 2, false)
	rows := make([]Map, n)
	arr := make([]any, n)
	for i := range rows {
		a := verif.F64("a")
		verif.Assume(a == a)
		r := Map{"a": a}
		if verif.Choose("bnull", 2) == 0 {
			b := verif.F64("b")
			verif.Assume(b == b)
			r["b"] = b
		} else {
			r["b"] = nil
		}
		rows[i], arr[i] = r, r
	}
	c := verif.F64("c")
	var holes []any
	text := e.sql(&holes, c)
	got, ok := runQuery(Map{"t": arr}, verif.SQL("SELECT "+text+" AS v FROM t", holes...))
	if !ok {
		return
	}
	var want []any
	for _, r := range rows {
		env := &gEnv{row: r, c: c}
		want = append(want, Map{"v": e.eval(env)})
	}
	verif.Assert(verif.Eq(got, want), "projection")
	verif.Reach("end")
}

// H_C19_grammar: a failing user function in every leaf position of every
// expression tree (depth ≤ 2), in the select list and in WHERE, failing at
// its k-th invocation: the failure surfaces as an error and no rows.
func H_C19_grammar() {
	where := verif.Choose("clause", 2)
	e := genExpr("e", 2, true)
	if !hasFault(e) {
		verif.Assume(false)
	}
	n := 1 + verif.Choose("rows", 1+verif.Tier())
	faultAt, faultCalls = 1+verif.Choose("fault-at", 3), 0
	RegisterFunction("vfault", faultFunc)
	rows := make([]Map, n)
	arr := make([]any, n)
	for i := range rows {
		a, b := verif.F64("a"), verif.F64("b")
		verif.Assume(verif.All(a == a, b == b))
		rows[i] = Map{"a": a, "b": b}
		arr[i] = rows[i]
	}
	c := verif.F64("c")
	var holes []any
	text := e.sql(&holes, c)
	var sql string
	if where == 0 {
		sql = "SELECT " + text + " AS v FROM t"
	} else {
		sql = "SELECT a FROM t WHERE " + text + " IS NOT NULL"
	}
	got, err := runQueryQuiet(Map{"t": arr}, verif.SQL(sql, holes...))
	// reference: does the fault fire on some row?
	fired := false
	calls := 0
	for _, r := range rows {
		env := &gEnv{row: r, c: c, calls: calls, failAt: faultAt}
		e.eval(env)
		calls = env.calls
		if env.faulted {
			fired = true
			break
		}
	}
	if fired {
		verif.Assert(err != nil, "fault-surfaces-as-error")
		verif.Assert(len(got) == 0, "no-rows-with-error")
	} else {
		verif.Assert(err == nil, "no-spurious-error")
	}
	verif.Reach("end")
}

func hasFault(e *gExpr) bool {
	if e == nil {
		return false
	}
	if e.kind == 0 {
		return e.leaf == gLeafFault
	}
	return hasFault(e.l) || hasFault(e.r)
}

// ---- predicate grammar (C01)
//
//	P := atom | NOT atom | atom (AND|OR) atom | NOT (atom (AND|OR) atom)
//	   | (atom (AND|OR) atom) (AND|OR) atom
//	atom := a cmp ? | a cmp b | a [NOT] IN (?, ?) | a [NOT] BETWEEN ? AND ?
//	      | n IS [NOT] NULL          cmp ∈ < = >=
type gAtom struct {
	kind int // 0 a cmp c, 1 a cmp b, 2 IN, 3 NOT IN, 4 BETWEEN, 5 NOT BETWEEN, 6 IS NULL, 7 IS NOT NULL
	cop  int
}

var gCmp = []string{"<", "=", ">="}

func genAtom(label string) gAtom {
	k := verif.Choose(label+"-atom", 8)
	a := gAtom{kind: k}
	if k <= 1 {
		a.cop = verif.Choose(label+"-cmp", 3)
	}
	return a
}

func (a gAtom) sql(holes *[]any, c1, c2 float64) string {
	switch a.kind {
	case 0:
		*holes = append(*holes, c1)
		return "a " + gCmp[a.cop] + " ?"
	case 1:
		return "a " + gCmp[a.cop] + " b"
	case 2, 3:
		*holes = append(*holes, c1, c2)
		if a.kind == 3 {
			return "a NOT IN (?, ?)"
		}
		return "a IN (?, ?)"
	case 4, 5:
		*holes = append(*holes, c1, c2)
		if a.kind == 5 {
			return "a NOT BETWEEN ? AND ?"
		}
		return "a BETWEEN ? AND ?"
	case 6:
		return "n IS NULL"
	}
	return "n IS NOT NULL"
}

func gcmp(op int, x, y float64) bool {
	switch op {
	case 0:
		return x < y
	case 1:
		return x == y
	}
	return x >= y
}

func (a gAtom) eval(r Map, c1, c2 float64) bool {
	x := f64of(r["a"])
	switch a.kind {
	case 0:
		return gcmp(a.cop, x, c1)
	case 1:
		return gcmp(a.cop, x, f64of(r["b"]))
	case 2:
		return x == c1 || x == c2
	case 3:
		return !(x == c1 || x == c2)
	case 4:
		return x >= c1 && x <= c2
	case 5:
		return !(x >= c1 && x <= c2)
	case 6:
		return r["n"] == nil
	}
	return r["n"] != nil
}

// H_C01_grammar: every predicate of the grammar over a table with two
// numeric columns and a nullable one.
func H_C01_grammar() {
	n := verif.Choose("rows", 2+verif.Tier())
	shape := verif.Choose("shape", 4+verif.Tier()) // three-atom shapes in the thorough tier (on 0..1 rows)
	if shape == 4 && n > 1 {
		verif.Assume(false)
	}
	a1 := genAtom("p")
	var a2, a3 gAtom
	con1, con2 := 0, 0
	if shape >= 2 {
		a2 = genAtom("q")
		con1 = verif.Choose("con1", 2)
	}
	if shape == 4 {
		a3 = genAtom("r")
		con2 = verif.Choose("con2", 2)
	}
	rows := make([]Map, n)
	arr := make([]any, n)
	for i := range rows {
		x, y := verif.F64("a"), verif.F64("b")
		verif.Assume(verif.All(x == x, y == y))
		r := Map{"a": x, "b": y, "n": nil}
		if verif.Choose("null", 2) == 0 {
			r["n"] = float64(1)
		}
		rows[i], arr[i] = r, r
	}
	c1, c2 := verif.F64("c1"), verif.F64("c2")
	var holes []any
	con := []string{" AND ", " OR "}
	var w string
	switch shape {
	case 0:
		w = a1.sql(&holes, c1, c2)
	case 1:
		w = "NOT (" + a1.sql(&holes, c1, c2) + ")"
	case 2:
		w = a1.sql(&holes, c1, c2) + con[con1] + a2.sql(&holes, c1, c2)
	case 3:
		w = "NOT (" + a1.sql(&holes, c1, c2) + con[con1] + a2.sql(&holes, c1, c2) + ")"
	case 4:
		w = "(" + a1.sql(&holes, c1, c2) + con[con1] + a2.sql(&holes, c1, c2) + ")" + con[con2] + a3.sql(&holes, c1, c2)
	}
	got, ok := runQuery(Map{"t": arr}, verif.SQL("SELECT * FROM t WHERE "+w, holes...))
	if !ok {
		return
	}
	comb := func(c int, x, y bool) bool {
		if c == 0 {
			return x && y
		}
		return x || y
	}
	var want []Map
	for _, r := range rows {
		p := a1.eval(r, c1, c2)
		var keep bool
		switch shape {
		case 0:
			keep = p
		case 1:
			keep = !p
		case 2:
			keep = comb(con1, p, a2.eval(r, c1, c2))
		case 3:
			keep = !comb(con1, p, a2.eval(r, c1, c2))
		case 4:
			keep = comb(con2, comb(con1, p, a2.eval(r, c1, c2)), a3.eval(r, c1, c2))
		}
		if keep {
			want = append(want, r)
		}
	}
	sameRows(got, want, "filter")
	verif.Reach("end")
}
