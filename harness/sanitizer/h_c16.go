package sanitize

import (
	"github.com/vedadiyan/genql"
	verif "github.com/vedadiyan/genql/zz_verif"
	"math"
)

const c16Alphabet = "'\\-# a\";/*\x00\xc3"

func echo(sql string) ([]any, error) {
	q, err := genql.New(genql.Map{}, sql)
	if err != nil {
		return nil, err
	}
	return q.Exec()
}

// H_C16_echo_str: for every string argument the sanitized text parses and
// `SELECT $1 AS v FROM dual` echoes exactly the argument.
func H_C16_echo_str() {
	maxLen := 3 + verif.Tier()
	s := verif.Str("s", maxLen, c16Alphabet)
	out, err := SanitizeSQL("SELECT $1 AS v FROM dual", s)
	verif.Assert(err == nil, "sanitize-ok")
	if err != nil {
		return
	}
	got, err := echo(out)
	verif.Assert(err == nil, "parses-and-runs")
	if err != nil {
		return
	}
	verif.Assert(verif.Eq(got, []any{genql.Map{"v": s}}), "echo")
	verif.Reach("end")
}

// H_C16_shape_str: the argument cannot add, remove or alter clauses: the
// token stream of the sanitized text is that of the template with the
// placeholder replaced by one STRING token.
func H_C16_shape_str() {
	maxLen := 3 + verif.Tier()
	s := verif.Str("s", maxLen, c16Alphabet)
	out, err := SanitizeSQL("SELECT $1 AS v FROM t WHERE a = 1", s)
	verif.Assert(err == nil, "sanitize-ok")
	if err != nil {
		return
	}
	class, typ, _, _, val := verif.MySQLScan(out)
	_, wtyp, _, _, _ := verif.MySQLScan("SELECT 'x' AS v FROM t WHERE a = 1")
	ok := len(typ) == len(wtyp)
	if ok {
		for i := range typ {
			if typ[i] != wtyp[i] {
				ok = false
			}
		}
	}
	verif.Assert(ok, "same-token-shape")
	if ok {
		verif.Assert(class[1] == verif.TokString && val[1] == s, "literal-value")
	}
	verif.Reach("end")
}

// H_C16_echo_scalar: int64 / float64 / bool / NULL arguments in three
// syntactic positions.
func H_C16_echo_scalar() {
	kind := verif.Choose("kind", 7)
	tpl := verif.Choose("template", 3)
	templates := []string{"SELECT $1 AS v FROM dual", "SELECT 1-$1 AS v FROM dual", "SELECT 1 - $1 AS v FROM dual"}
	var arg any
	var want any
	var num float64
	switch kind {
	case 0:
		x := verif.IntRange("x", -11, 11)
		arg, num = int64(x), float64(x)
		want = num
	case 1:
		fs := []float64{0, 1.5, -2, 1e21, 1e-7, 123456789.25}
		num = fs[verif.Choose("float", len(fs))]
		arg, want = num, num
	case 2:
		b := verif.Choose("bool", 2) == 1
		arg, want = b, b
	case 3:
		arg, want = nil, nil
	case 4:
		// integers at and near the limits of int64 and of exact float64 integers
		xs := []int64{math.MinInt64, math.MinInt64 + 1, math.MaxInt64, -(1 << 53) - 1, 1 << 62, -1000000, 1<<53 + 1}
		x := xs[verif.Choose("int", len(xs))]
		arg, num = x, float64(x)
		want = num
	case 5:
		fs := []float64{math.MaxFloat64, -math.MaxFloat64, math.SmallestNonzeroFloat64, -1e-300, 1e300, 0.1, -0.1, 1e22, 123456789012345680000}
		num = fs[verif.Choose("float", len(fs))]
		arg, want = num, num
	case 6:
		// whole floats at the powers of two around the integer types' limits, and their neighbours
		exps := []int{24, 31, 32, 52, 53, 62, 63, 64, 65, 127, 128}
		num = math.Ldexp(1, exps[verif.Choose("exp", len(exps))])
		switch verif.Choose("neighbour", 3) {
		case 1:
			num = math.Nextafter(num, 0)
		case 2:
			num = math.Nextafter(num, math.Inf(1))
		}
		if verif.Choose("sign", 2) == 1 {
			num = -num
		}
		arg, want = num, num
	}
	if tpl > 0 {
		if kind == 2 || kind == 3 {
			verif.Assume(false)
		}
		want = 1 - num
	}
	out, err := SanitizeSQL(templates[tpl], arg)
	verif.Assert(err == nil, "sanitize-ok")
	if err != nil {
		return
	}
	got, err := echo(out)
	verif.Assert(err == nil, "parses-and-runs")
	if err != nil {
		return
	}
	verif.Assert(verif.Eq(got, []any{genql.Map{"v": want}}), "echo")
	verif.Reach("end")
}

// H_C16_args: missing or unused arguments and $0 are errors, not panics.
func H_C16_args() {
	c := verif.Choose("case", 17)
	var out string
	var err error
	panicked := false
	func() {
		defer func() {
			if recover() != nil {
				panicked = true
			}
		}()
		switch c {
		case 0:
			out, err = SanitizeSQL("SELECT $1, $2 FROM dual", "a")
		case 1:
			out, err = SanitizeSQL("SELECT 1 FROM dual", "a")
		case 2:
			out, err = SanitizeSQL("SELECT $0 FROM dual", "a")
		case 3:
			out, err = SanitizeSQL("SELECT $2 FROM dual", "a", "b")
		case 4:
			out, err = SanitizeSQL("SELECT $1 FROM dual")
		case 5:
			out, err = SanitizeSQL("SELECT $1, $1 FROM dual", "a")
		case 6:
			out, err = SanitizeSQL("SELECT $1 AS a, $1 AS b FROM dual", "x", "y")
		case 7:
			out, err = SanitizeSQL("SELECT $2, $2, $2 FROM dual", "x", "y")
		case 8:
			out, err = SanitizeSQL("SELECT $1, $3 FROM dual", "x", "y", "z")
		case 9:
			out, err = SanitizeSQL("SELECT $10 FROM dual", "a", "b")
		default:
			// placeholder numbers at and beyond the limits of the integer types
			big := []string{"$9223372036854775807", "$9223372036854775808", "$9223372036854775809", "$18446744073709551615", "$18446744073709551617", "$99999999999999999999999", "$4294967297"}
			out, err = SanitizeSQL("SELECT "+big[c-10]+" FROM dual", "a")
		}
	}()
	verif.Assert(!panicked, "no-panic")
	if c == 5 {
		verif.Assert(err == nil && out == "SELECT 'a', 'a' FROM dual", "repeated-placeholder")
	} else if !panicked {
		verif.Assert(err != nil, "reported-as-error")
	}
	verif.Reach("end")
}

// H_C16_many_args: argument accounting does not depend on how many
// arguments there are: templates using all of $1..$n, or all but one (the
// first, the last, one in the middle), for n around every word size.
func H_C16_many_args() {
	ns := []int{1, 2, 31, 32, 33, 63, 64, 65, 66, 128, 129, 257}
	n := ns[verif.Choose("n", len(ns))]
	skip := verif.Choose("skip", 4) // 0 none, 1 first, 2 last, 3 middle
	unused := []int{0, 1, n, (n + 1) / 2}[skip]
	tpl, want := "SELECT ", "SELECT "
	args := make([]any, n)
	for i := 1; i <= n; i++ {
		args[i-1] = int64(i)
		if i == unused {
			continue
		}
		tpl += "$" + itoa(i) + ", "
		want += " " + itoa(i) + " , "
	}
	tpl += "0 FROM dual"
	want += "0 FROM dual"
	var out string
	var err error
	panicked := false
	func() {
		defer func() {
			if recover() != nil {
				panicked = true
			}
		}()
		out, err = SanitizeSQL(tpl, args...)
	}()
	verif.Assert(!panicked, "no-panic")
	if unused == 0 {
		verif.Assert(err == nil, "all-used-is-accepted")
		if err == nil {
			verif.Assert(squeeze(out) == squeeze(want), "every-placeholder-replaced-by-its-argument")
		}
	} else {
		verif.Assert(err != nil, "unused-argument-reported")
	}
	verif.Reach("end")
}

// squeeze drops blanks (the sanitizer pads numbers with blanks).
func squeeze(s string) string {
	b := make([]byte, 0, len(s))
	for i := 0; i < len(s); i++ {
		if s[i] != ' ' {
			b = append(b, s[i])
		}
	}
	return string(b)
}

// H_C16_template: `$1` inside string literals, quoted identifiers and
// comments (as the library's own MySQL tokenizer delimits them) is left
// alone; elsewhere it is replaced by the quoted argument.
func H_C16_template() {
	maxLen := 4 + verif.Tier()
	t := verif.Str("t", maxLen, "$1'\"`-/*#\n e\\") // the letter is e: e'...' is an escape string for the sanitizer's lexer
	checkTemplate(t)
}

// H_C16_comments: a block comment with any short body over asterisks,
// slashes, blanks, quotes and a placeholder, followed by a placeholder: the
// placeholder inside the comment is left alone, the one after it is replaced.
func H_C16_comments() {
	body := verif.Str("body", 3+verif.Tier(), "*/ '$1")
	checkTemplate("/*" + body + "*/$1")
}

func checkTemplate(t string) {
	tpl := "SELECT " + t + " FROM x"
	out, err := SanitizeSQL(tpl, "Z")
	class, _, start, end, _ := verif.MySQLScan(tpl)
	for _, c := range class {
		if c == verif.TokError {
			verif.Assume(false) // templates the tokenizer rejects are outside the claim
		}
	}
	// expected text: replace `$1` where it is not inside a string / quoted
	// identifier token and not in a gap (comment)
	want := ""
	replaced := false
	beyond := false // an unprotected placeholder with a number above the argument count ($11, $111)
	for i := 0; i < len(tpl); i++ {
		if i+1 < len(tpl) && tpl[i] == '$' && tpl[i+1] == '1' {
			multi := i+2 < len(tpl) && tpl[i+2] >= '0' && tpl[i+2] <= '9'
			inTok, protected := false, false
			for k := range class {
				if start[k] <= i && i < end[k] {
					inTok = true
					if class[k] == verif.TokString || class[k] == verif.TokComment || (class[k] == verif.TokIdent && tpl[start[k]] == '`') {
						protected = true
					}
				}
			}
			if inTok && !protected && multi {
				beyond = true
			}
			if inTok && !protected && !multi {
				want += "'Z'"
				replaced = true
				i++
				continue
			}
		}
		want += tpl[i : i+1]
	}
	// the sanitizer's lexer follows PostgreSQL lexical rules while the parser
	// is MySQL: templates using the constructs that differ are classified so
	// that each known difference is reported under its own label
	class_ := ""
	// a second comment opener after the first one: nesting (decided first)
	openers := 0
	for i := 0; i+1 < len(t); i++ {
		if t[i] == '/' && t[i+1] == '*' {
			openers++
			i++
		}
	}
	if openers >= 2 {
		class_ = "/nested-comment"
	}
	for i := 0; i < len(t); i++ {
		switch {
		case t[i] == '`':
			class_ = "/backtick-identifier"
		case t[i] == '#' && class_ == "":
			class_ = "/hash-comment"
		case t[i] == '-' && i+1 < len(t) && t[i+1] == '-' && class_ == "":
			class_ = "/dash-dash"
		case t[i] == '/' && i+1 < len(t) && t[i+1] == '/' && class_ == "":
			class_ = "/slash-slash"
		case t[i] == '\\' && class_ == "":
			class_ = "/backslash-escape"
		}
	}
	if beyond {
		verif.Assert(err != nil, "placeholder-beyond-arguments-is-error"+class_)
	} else if replaced {
		verif.Assert(err == nil && out == want, "placeholders-outside-literals-only"+class_)
	} else {
		verif.Assert(err != nil || out == tpl, "literal-placeholders-left-alone"+class_)
	}
	verif.Reach("end")
}

// H_C16_two_args: two string placeholders in one statement; neither
// argument can change the clause structure or leak into the other literal.
func H_C16_two_args() {
	maxLen := 2 + verif.Tier()
	s1 := verif.Str("s1", maxLen, "'\\- a#")
	s2 := verif.Str("s2", maxLen, "'\\- a#")
	out, err := SanitizeSQL("SELECT $1 AS v, $2 AS w FROM dual WHERE $2 = $2", s1, s2)
	verif.Assert(err == nil, "sanitize-ok")
	if err != nil {
		return
	}
	got, err := echo(out)
	verif.Assert(err == nil, "parses-and-runs")
	if err != nil {
		return
	}
	verif.Assert(verif.Eq(got, []any{genql.Map{"v": s1, "w": s2}}), "echo")
	verif.Reach("end")
}

// H_C16_sequence: a call that is rejected leaves nothing behind: the next
// valid call returns exactly its own sanitized text (and a rejected call
// after a valid one is still rejected).
func H_C16_sequence() {
	bad := verif.Choose("rejected-call", 5)
	order := verif.Choose("order", 2)
	reject := func() error {
		var err error
		switch bad {
		case 0:
			_, err = SanitizeSQL("SELECT $1 AS a, $2 AS b FROM dual", "a")
		case 1:
			_, err = SanitizeSQL("SELECT 'lead' AS a, $0 FROM dual", "a")
		case 2:
			_, err = SanitizeSQL("SELECT $1 AS a FROM dual", "a", "unused")
		case 3:
			_, err = SanitizeSQL("SELECT $1 AS a, $2 FROM dual", "a", struct{}{})
		case 4:
			_, err = SanitizeSQL("SELECT $3 FROM dual", "a")
		}
		return err
	}
	s := verif.Str("s", 2, c16Alphabet)
	want := "SELECT " + QuoteString(s) + " AS v FROM dual"
	if order == 0 {
		verif.Assert(reject() != nil, "rejected")
		out, err := SanitizeSQL("SELECT $1 AS v FROM dual", s)
		verif.Assert(err == nil && out == want, "valid-call-after-rejected-one")
	} else {
		out, err := SanitizeSQL("SELECT $1 AS v FROM dual", s)
		verif.Assert(err == nil && out == want, "valid-call")
		verif.Assert(reject() != nil, "rejected")
		out, err = SanitizeSQL("SELECT $1 AS v FROM dual", s)
		verif.Assert(err == nil && out == want, "valid-call-after-rejected-one")
	}
	verif.Reach("end")
}

func itoa(n int) string {
	if n == 0 {
		return "0"
	}
	s := ""
	for ; n > 0; n /= 10 {
		s = string(rune('0'+n%10)) + s
	}
	return s
}
