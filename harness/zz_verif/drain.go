package verif

import (
	"runtime"
	"time"
)

func drainNative() {
	for i := 0; i < 50; i++ {
		runtime.Gosched()
	}
	time.Sleep(20 * time.Millisecond)
}
