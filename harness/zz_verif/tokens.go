package verif

import (
	"github.com/vedadiyan/sqlparser/v2"
)

// Token classes returned by MySQLScan.
const (
	TokOther   = 0
	TokString  = 1
	TokIdent   = 2
	TokError   = 3
	TokNumber  = 4
	TokComment = 5 // a comment the tokenizer returns as a token (`//...`, `/*! ... */`)
)

// MySQLScan runs the library's own (MySQL dialect) tokenizer over sql and
// returns, per token: class, raw type, start and end offsets and value.
// Comments and blanks are not tokens (they are the gaps between spans).
// Under the engine this is an intrinsic that concretises sql first.
func MySQLScan(sql string) (class []int, typ []int, start []int, end []int, val []string) {
	tkn := sqlparser.NewTestParser().NewStringTokenizer(sql)
	for i := 0; i < 4096; i++ {
		// skip blanks so that the start offset is the token's first byte
		for tkn.Pos < len(sql) && (sql[tkn.Pos] == ' ' || sql[tkn.Pos] == '\n' || sql[tkn.Pos] == '\r' || sql[tkn.Pos] == '\t') {
			tkn.Pos++
		}
		s := tkn.Pos
		t, v := tkn.Scan()
		if t == 0 {
			break
		}
		c := TokOther
		switch t {
		case sqlparser.STRING:
			c = TokString
		case sqlparser.ID:
			c = TokIdent
		case sqlparser.LEX_ERROR:
			c = TokError
		case sqlparser.INTEGRAL, sqlparser.DECIMAL, sqlparser.FLOAT:
			c = TokNumber
		case sqlparser.COMMENT:
			c = TokComment
		}
		class = append(class, c)
		typ = append(typ, t)
		start = append(start, s)
		end = append(end, tkn.Pos)
		val = append(val, v)
		if t == sqlparser.LEX_ERROR {
			break
		}
	}
	return
}
