// Package verif is the harness support package of the gosym engine.
//
// Under the engine every function below is an intrinsic (intercepted by
// name); the bodies here are the native implementation used when a
// counterexample is replayed against the natively compiled library: inputs
// are read, in call order, from the replay file named by VERIF_REPLAY.
package verif

import (
	"encoding/json"
	"fmt"
	"math"
	"os"
	"reflect"
	"sort"
	"strconv"
	"strings"
	"sync"
)

type input struct {
	Kind  string `json:"kind"`
	Label string `json:"label"`
	Bits  string `json:"bits,omitempty"`  // f64: hex bits; int: decimal; bool: 0/1; byte: decimal
	Bytes []int  `json:"bytes,omitempty"` // str
	N     int    `json:"n,omitempty"`
	Alt   int    `json:"alt,omitempty"`
}

type replayFile struct {
	Harness string  `json:"harness"`
	Inputs  []input `json:"inputs"`
	Tier    int     `json:"tier"`
}

var (
	mu       sync.Mutex
	rf       *replayFile
	pos      int
	Failures []string
	Reached  []string
	tier     int
)

type AssumeFailed struct{}
type ReplayMismatch struct{ Msg string }

func load() {
	if rf != nil {
		return
	}
	rf = &replayFile{}
	path := os.Getenv("VERIF_REPLAY")
	if path == "" {
		panic(ReplayMismatch{"VERIF_REPLAY not set"})
	}
	b, err := os.ReadFile(path)
	if err != nil {
		panic(ReplayMismatch{err.Error()})
	}
	if err := json.Unmarshal(b, rf); err != nil {
		panic(ReplayMismatch{err.Error()})
	}
	tier = rf.Tier
}

func next(kind, label string) input {
	mu.Lock()
	defer mu.Unlock()
	load()
	if pos >= len(rf.Inputs) {
		// inputs beyond the recorded ones were unconstrained on the reported path
		return input{Kind: kind, Label: label, Bits: "0"}
	}
	in := rf.Inputs[pos]
	pos++
	if in.Kind != kind || in.Label != label {
		panic(ReplayMismatch{fmt.Sprintf("replay input %d is %s/%s, harness asked for %s/%s", pos-1, in.Kind, in.Label, kind, label)})
	}
	return in
}

// Reset rewinds the replay log (used by the replay test driver).
func Reset() {
	mu.Lock()
	rf, pos, Failures, Reached = nil, 0, nil, nil
	mu.Unlock()
}

func F64(label string) float64 {
	in := next("f64", label)
	u, _ := strconv.ParseUint(in.Bits, 16, 64)
	return math.Float64frombits(u)
}

func Int(label string) int {
	in := next("int", label)
	n, _ := strconv.ParseInt(in.Bits, 10, 64)
	return int(n)
}

func IntRange(label string, lo, hi int) int {
	n := Int(label)
	if n < lo || n > hi {
		panic(AssumeFailed{})
	}
	return n
}

func Bool(label string) bool {
	in := next("bool", label)
	return in.Bits == "1"
}

func Byte(label string) byte {
	in := next("byte", label)
	n, _ := strconv.ParseUint(in.Bits, 10, 8)
	return byte(n)
}

func Str(label string, maxLen int, alphabet string) string {
	in := next("str", label)
	b := make([]byte, len(in.Bytes))
	for i, x := range in.Bytes {
		b[i] = byte(x)
	}
	if len(b) > maxLen {
		panic(ReplayMismatch{"string longer than maxLen"})
	}
	if alphabet != "" {
		for _, c := range b {
			if !strings.ContainsRune(alphabet, rune(c)) && strings.IndexByte(alphabet, c) < 0 {
				panic(AssumeFailed{})
			}
		}
	}
	return string(b)
}

func Choose(label string, n int) int {
	in := next("choose", label)
	if in.Alt >= n {
		panic(ReplayMismatch{"choice out of range"})
	}
	return in.Alt
}

func Tier() int {
	mu.Lock()
	defer mu.Unlock()
	load()
	return tier
}

func Assume(c bool) {
	if !c {
		panic(AssumeFailed{})
	}
}

func Assert(c bool, label string) {
	if !c {
		mu.Lock()
		Failures = append(Failures, label)
		mu.Unlock()
	}
}

func Reach(label string) {
	mu.Lock()
	Reached = append(Reached, label)
	mu.Unlock()
}

func Note(s string) {}

func All(cs ...bool) bool {
	for _, c := range cs {
		if !c {
			return false
		}
	}
	return true
}

func Any(cs ...bool) bool {
	for _, c := range cs {
		if c {
			return true
		}
	}
	return false
}

func Not(c bool) bool        { return !c }
func Implies(a, b bool) bool { return !a || b }

// NotNegZero reports that x is not the IEEE negative zero.
func NotNegZero(x float64) bool { return !(x == 0 && math.Signbit(x)) }

func IteF64(c bool, a, b float64) float64 {
	if c {
		return a
	}
	return b
}

// Eq is deep structural equality: dynamic types must be identical, floats
// are equal when == holds or both are NaN, nil and empty slices are equal,
// pointers compare by identity.
func Eq(a, b any) bool { return deepEq(reflect.ValueOf(a), reflect.ValueOf(b), 0) }

func deepEq(a, b reflect.Value, depth int) bool {
	if depth > 30 {
		panic(ReplayMismatch{"verif.Eq on a cyclic or very deep value"})
	}
	if !a.IsValid() || !b.IsValid() {
		if !a.IsValid() && !b.IsValid() {
			return true
		}
		o := a
		if !a.IsValid() {
			o = b
		}
		return o.Kind() == reflect.Slice && o.Len() == 0
	}
	if a.Type() != b.Type() {
		return false
	}
	switch a.Kind() {
	case reflect.Float32, reflect.Float64:
		x, y := a.Float(), b.Float()
		return x == y || (x != x && y != y)
	case reflect.Map:
		if a.Len() != b.Len() {
			return false
		}
		for _, k := range a.MapKeys() {
			bv := b.MapIndex(k)
			if !bv.IsValid() {
				return false
			}
			if !deepEq(a.MapIndex(k), bv, depth+1) {
				return false
			}
		}
		return true
	case reflect.Slice, reflect.Array:
		if a.Len() != b.Len() {
			return false
		}
		for i := 0; i < a.Len(); i++ {
			if !deepEq(a.Index(i), b.Index(i), depth+1) {
				return false
			}
		}
		return true
	case reflect.Interface:
		if a.IsNil() || b.IsNil() {
			if a.IsNil() && b.IsNil() {
				return true
			}
			o := a
			if a.IsNil() {
				o = b
			}
			e := o.Elem()
			return e.Kind() == reflect.Slice && e.Len() == 0
		}
		return deepEq(a.Elem(), b.Elem(), depth+1)
	case reflect.Struct:
		for i := 0; i < a.NumField(); i++ {
			if !deepEq(a.Field(i), b.Field(i), depth+1) {
				return false
			}
		}
		return true
	case reflect.Ptr:
		return a.Pointer() == b.Pointer()
	case reflect.Func:
		return false
	}
	return a.Interface() == b.Interface()
}

// SameObj reports whether a and b are the same map, slice or pointer.
func SameObj(a, b any) bool {
	if a == nil || b == nil {
		return a == nil && b == nil
	}
	x, y := reflect.ValueOf(a), reflect.ValueOf(b)
	if x.Kind() != y.Kind() {
		return false
	}
	switch x.Kind() {
	case reflect.Map, reflect.Ptr:
		return x.Pointer() == y.Pointer() && x.Pointer() != 0
	case reflect.Slice:
		return x.Cap() > 0 && y.Cap() > 0 && x.Pointer() == y.Pointer() && x.Len() == y.Len()
	}
	return false
}

// SQL renders a '?' template: float64 holes as shortest decimal text, int
// holes as decimal, string holes as MySQL string literals.
func SQL(template string, holes ...any) string {
	var b strings.Builder
	k := 0
	for i := 0; i < len(template); i++ {
		if template[i] != '?' {
			b.WriteByte(template[i])
			continue
		}
		switch v := holes[k].(type) {
		case float64:
			if v != v || math.IsInf(v, 0) || v < 0 || math.Signbit(v) {
				panic(AssumeFailed{})
			}
			b.WriteString(strconv.FormatFloat(v, 'g', -1, 64))
		case int:
			if v < 0 {
				panic(AssumeFailed{})
			}
			b.WriteString(strconv.Itoa(v))
		case string:
			b.WriteString(Quote(v))
		default:
			panic(ReplayMismatch{fmt.Sprintf("verif.SQL: unsupported hole %T", v)})
		}
		k++
	}
	return b.String()
}

// Quote renders a MySQL string literal decoding back to exactly s.
func Quote(s string) string {
	var b strings.Builder
	b.WriteByte('\'')
	for i := 0; i < len(s); i++ {
		switch c := s[i]; c {
		case '\'':
			b.WriteString(`\'`)
		case '\\':
			b.WriteString(`\\`)
		case 0:
			b.WriteString(`\0`)
		case '\n':
			b.WriteString(`\n`)
		case '\r':
			b.WriteString(`\r`)
		case 0x1a:
			b.WriteString(`\Z`)
		default:
			b.WriteByte(c)
		}
	}
	b.WriteByte('\'')
	return b.String()
}

// Opt sets engine options (map-order decisions, schedule exploration, race
// monitoring); natively a no-op.
func Opt(name string, v int) {}

// Drain lets background goroutines run; natively a short sleep-free yield
// loop is not reliable, so the replay driver repeats runs instead.
func Drain() { drainNative() }

func Live() int { return 0 }

type Snap struct{ root *snapNode }

type snapNode struct {
	kind  string
	ptr   uintptr
	t     reflect.Type
	keys  []string
	elems []*snapNode
	val   any
	n     int
}

func Snapshot(v any) *Snap { return &Snap{snap(reflect.ValueOf(v), 0)} }

func snap(v reflect.Value, depth int) *snapNode {
	if depth > 30 {
		panic(ReplayMismatch{"verif.Snapshot of a cyclic or very deep value"})
	}
	if !v.IsValid() {
		return &snapNode{kind: "nil"}
	}
	if v.Kind() == reflect.Interface {
		if v.IsNil() {
			return &snapNode{kind: "nil"}
		}
		v = v.Elem()
	}
	switch v.Kind() {
	case reflect.Map:
		n := &snapNode{kind: "map", ptr: v.Pointer(), t: v.Type()}
		for _, k := range v.MapKeys() {
			n.keys = append(n.keys, k.String())
		}
		sort.Strings(n.keys)
		for _, k := range n.keys {
			n.elems = append(n.elems, snap(v.MapIndex(reflect.ValueOf(k)), depth+1))
		}
		return n
	case reflect.Slice:
		n := &snapNode{kind: "slice", t: v.Type(), n: v.Len()}
		if v.Cap() > 0 {
			n.ptr = v.Pointer()
		}
		for i := 0; i < v.Len(); i++ {
			n.elems = append(n.elems, snap(v.Index(i), depth+1))
		}
		return n
	}
	return &snapNode{kind: "scalar", t: v.Type(), val: v.Interface()}
}

func Unchanged(s *Snap, v any) bool {
	return unchanged(s.root, reflect.ValueOf(v), map[uintptr]bool{}, 0)
}

func unchanged(sn *snapNode, v reflect.Value, onPath map[uintptr]bool, depth int) bool {
	if depth > 40 {
		return false
	}
	if v.IsValid() && v.Kind() == reflect.Interface {
		if v.IsNil() {
			return sn.kind == "nil"
		}
		v = v.Elem()
	}
	if sn.kind == "nil" {
		return !v.IsValid()
	}
	if !v.IsValid() || v.Type() != sn.t {
		return false
	}
	switch sn.kind {
	case "map":
		if v.Pointer() != sn.ptr {
			return false
		}
		if v.Pointer() != 0 {
			if onPath[v.Pointer()] {
				return false
			}
			onPath[v.Pointer()] = true
			defer delete(onPath, v.Pointer())
		}
		if v.Len() != len(sn.keys) {
			return false
		}
		for i, k := range sn.keys {
			e := v.MapIndex(reflect.ValueOf(k))
			if !e.IsValid() {
				return false
			}
			if !unchanged(sn.elems[i], e, onPath, depth+1) {
				return false
			}
		}
		return true
	case "slice":
		if v.Len() != sn.n {
			return false
		}
		if v.Cap() > 0 && v.Pointer() != sn.ptr {
			return false
		}
		for i := 0; i < v.Len(); i++ {
			if !unchanged(sn.elems[i], v.Index(i), onPath, depth+1) {
				return false
			}
		}
		return true
	}
	return deepEq(reflect.ValueOf(sn.val), v, depth)
}

// Plain returns "" if v consists only of map[string]any, []any, strings,
// numbers, booleans and nil, is acyclic and has no "<-" key; otherwise a
// description of the first offending node.
func Plain(v any) string { return plain(reflect.ValueOf(v), map[uintptr]bool{}, 0, "$") }

func plain(v reflect.Value, onPath map[uintptr]bool, depth int, path string) string {
	if depth > 40 {
		return path + ": too deep (cycle?)"
	}
	if !v.IsValid() {
		return ""
	}
	if v.Kind() == reflect.Interface {
		if v.IsNil() {
			return ""
		}
		v = v.Elem()
	}
	t := v.Type()
	switch {
	case t.PkgPath() == "" && (t.Kind() == reflect.String || t.Kind() == reflect.Bool ||
		(t.Kind() >= reflect.Int && t.Kind() <= reflect.Float64)):
		return ""
	case t == reflect.TypeOf(map[string]any(nil)):
		if v.IsNil() {
			return ""
		}
		if onPath[v.Pointer()] {
			return path + ": cycle"
		}
		onPath[v.Pointer()] = true
		defer delete(onPath, v.Pointer())
		var keys []string
		for _, k := range v.MapKeys() {
			keys = append(keys, k.String())
		}
		sort.Strings(keys)
		for _, k := range keys {
			if k == "<-" {
				return path + `: "<-" navigation key`
			}
			if r := plain(v.MapIndex(reflect.ValueOf(k)), onPath, depth+1, path+"."+k); r != "" {
				return r
			}
		}
		return ""
	case t == reflect.TypeOf([]any(nil)):
		for i := 0; i < v.Len(); i++ {
			if r := plain(v.Index(i), onPath, depth+1, fmt.Sprintf("%s[%d]", path, i)); r != "" {
				return r
			}
		}
		return ""
	}
	return path + ": " + t.String()
}

func Concrete(n int) int    { return n }
func IsSymbolic(v any) bool { return false }

// RunReplay runs a harness natively on the inputs of VERIF_REPLAY and prints
// the outcome lines parsed by `gosym replay`.
func RunReplay(f func()) {
	if f == nil {
		fmt.Println("VERIF-MISMATCH unknown harness")
		return
	}
	defer func() {
		r := recover()
		for _, l := range Failures {
			fmt.Println("VERIF-FAIL " + l)
		}
		for _, l := range Reached {
			fmt.Println("VERIF-REACH " + l)
		}
		switch r := r.(type) {
		case nil:
		case AssumeFailed:
			fmt.Println("VERIF-ASSUME-FAILED")
		case ReplayMismatch:
			fmt.Println("VERIF-MISMATCH " + r.Msg)
		default:
			fmt.Printf("VERIF-PANIC %v\n", r)
		}
		fmt.Println("VERIF-DONE")
	}()
	f()
}
