#!/bin/bash
# usage: blockcov.sh [tier]  — runs every check with block-coverage output and lists the
# library basic blocks (by source line) that no harness executes. Diagnostic only.
tier=${1:-quick}
d=$(mktemp -d)
for p in C01 C02 C03 C04 C05 C06 C07 C08 C09 C10 C11 C12 C13 C14 C15 C16 C17 C18 C19 C20; do
  VERIF_BLOCKCOV=$d /verif/bin/gosym check $p --tier $tier > /dev/null 2>&1 || echo "check $p exit=$?" >&2
done
python3 - "$d" <<'PY'
import sys,glob,collections
seen=collections.defaultdict(bool); pos={}
for f in glob.glob(sys.argv[1]+'/*.txt'):
    for l in open(f):
        l=l.rstrip('\n')
        if not l: continue
        mark,rest=l[0],l[2:]
        key,_,p=rest.partition(' ')
        pos[key]=p
        seen[key]=seen[key] or mark=='+'
tot=len(seen); hit=sum(1 for k in seen if seen[k])
print(f"library basic blocks: {tot}, executed by some harness: {hit} ({100*hit//max(tot,1)}%)")
byfn=collections.defaultdict(list)
for k in sorted(seen):
    if not seen[k]:
        fn=k.rsplit('#',1)[0]; byfn[fn].append(pos[k].rsplit(':',1)[-1] if pos[k] else '?')
for fn in sorted(byfn):
    print(f"{fn}: lines {' '.join(byfn[fn])}")
PY
rm -rf $d
