#!/bin/bash
# usage: fixcommit.sh "fix: message"  — builds /repo, runs the pinned suite, commits if green
set -e
cd /repo
export GOFLAGS=-mod=mod GOPROXY=off GOSUMDB=off
go build ./...
out=$(go test -vet=off -count=1 ./... 2>&1 | tail -4)
echo "$out"
echo "$out" | grep -q "^ok  	github.com/vedadiyan/genql" || { echo "TESTS FAILED - not committed"; exit 1; }
git add -A
git commit -qm "$1"
git log --oneline | head -1
