#!/usr/bin/env python3
# creates scratch worktrees /tmp/mut/<id> and prompt files /tmp/mut/prompt_<id>.txt for a round of
# seeded changes; sub-agents get only the property text and their worktree (nothing from /verif).
# usage: mkseeds.py jobs.json   ({"C02e": ["C02", " extra steering text"], ...})
import json,subprocess,sys
props={json.loads(l)['id']:json.loads(l) for l in open('/verif/properties.jsonl')}
base='''You are helping test a verification framework by seeding a realistic defect into a Go library. Work ONLY inside the git worktree {wt} (a checkout of the library Vedadiyan/genql: a Go library that evaluates MySQL-dialect SELECT queries and a path-selector language over in-memory maps/slices). Do not read or touch /verif or /repo. Environment for every go command: `export GOFLAGS=-mod=mod GOPROXY=off GOSUMDB=off GOTOOLCHAIN=local` (no network).

The library is supposed to satisfy this property:

TITLE: {title}
STATEMENT: {statement}
QUANTIFIER: {quant}

Your task: make ONE small, realistic source change (the kind of slip a maintainer could plausibly make in a refactor or optimisation; 1-15 changed lines, non-test .go files only) that BREAKS this property, while
 (a) the library still compiles (`go build ./...`),
 (b) the existing test suite still passes unchanged (`go test -vet=off -count=1 ./...` must print ok), and
 (c) the breakage needs something specific to manifest - an unusual input (boundary value, particular combination of values, a specific row count or ordering, a rarely used operator/clause combination), a multi-step sequence, a particular interleaving, or two cooperating sites that each look fine alone - NOT something that every ordinary query would expose at once.
Do not edit or add tests in the committed change; do not change exported signatures.{extra}

Then write a demonstration: a Go test file `zz_demo_test.go` (in the package directory of the code you changed, package name matching that directory) containing a test `TestDemo` that FAILS with your change and PASSES without it. Verify both directions yourself: run it with the change applied (must fail), then remove the change with `git diff -- '*.go' ':(exclude)*zz_demo_test.go' > {wt}/patch.diff && git apply -R {wt}/patch.diff`, run again (must pass), then re-apply with `git apply {wt}/patch.diff`. IMPORTANT: do NOT use `git stash` (the stash is shared with other worktrees of the same repository and other people are working in them).

Finally produce, inside {wt}:
  - `patch.diff`: the diff of the source change only (tracked non-test files),
  - `zz_demo_test.go` (the demonstration, left in place),
  - `NOTES.md`: which function you changed, what exactly is needed for the breakage to manifest, and the commands you ran with their outcomes.
Leave the source change applied in the worktree. Reply with a short summary (the changed function, the trigger condition, and confirmation of the fail/pass runs).'''
jobs=json.load(open(sys.argv[1]))
subprocess.run('mkdir -p /tmp/mut',shell=True)
for k,(pid,extra) in jobs.items():
    wt=f'/tmp/mut/{k}'
    subprocess.run(f'git -C /repo worktree add -q --detach {wt} HEAD',shell=True,check=True)
    p=props[pid]
    open(f'/tmp/mut/prompt_{k}.txt','w').write(base.format(wt=wt,title=p['title'],statement=p['statement'],quant=p['quantifier']['text'],extra=extra))
print(len(jobs))
