#!/bin/bash
# usage: native.sh [pkgdir] < body-of-TestX   (scratch native experiment against /repo, via overlay; nothing is written to /repo)
set -e
pkg=${1:-.}
d=$(mktemp -d)
pn=genql; [ "$pkg" = "./compare" ] && pn=compare; [ "$pkg" = "./sanitizer" ] && pn=sanitize
{ echo "package $pn"; echo 'import ("testing";"fmt";"math";"strings";"os")'; echo 'var _ = fmt.Sprint; var _ = math.Abs; var _ = strings.ToLower; var _ = os.Exit'; echo 'func TestX(t *testing.T) {'; cat; echo '}'; } > $d/x_test.go
tgt=/repo/${pkg#./}/zz_x_test.go; [ "$pkg" = "." ] && tgt=/repo/zz_x_test.go
echo "{\"Replace\":{\"$tgt\":\"$d/x_test.go\"}}" > $d/ov.json
cd /repo && GOFLAGS=-mod=mod GOPROXY=off go test -vet=off -count=1 -overlay $d/ov.json -run 'TestX$' -v $pkg 2>&1 | grep -v "^=== RUN\|^--- PASS\|^PASS\|^ok " || true
rm -rf $d
