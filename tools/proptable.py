#!/usr/bin/env python3
# regenerates the §4 table of DESIGN.md from /verif/evidence/*.json (as written by the last runs)
import json,glob,re
rows=[]
for f in sorted(glob.glob('/verif/evidence/C*.json')):
    e=json.load(open(f)); c=e['coverage']
    hs=', '.join(h['harness'].split('_',2)[2] for h in c['harnesses'])
    b='; '.join('%s: %s'%(k,v) for k,v in c['bounds'].items())
    out='; '.join(c.get('outside_the_claim') or [])
    rows.append('| %s | %s | %s | %d | %d | %s |'%(e['property_id'],hs,b.replace('|','\\|'),c['evaluations'],c['assertions_discharged'],out.replace('|','\\|')))
d=open('/verif/DESIGN.md').read()
i=d.index('| id | harnesses |')
j=d.index('Trusted base (all checks)')
d=d[:i]+'| id | harnesses | bounds (quick tier) | paths | assertions | outside the claim |\n|---|---|---|---|---|---|\n'+'\n'.join(rows)+'\n\n'+d[j:]
open('/verif/DESIGN.md','w').write(d)
print(len(rows))
