#!/bin/bash
# usage: reseed.sh <name> <prop> [props...]  — re-run checks against an already stored seeded change
name=$1; shift
dst=/verif/seeded/$name
cd /verif
git -C /repo apply $dst/patch.diff 2>/dev/null || git -C /repo apply -C1 $dst/patch.diff 2>/dev/null || (cd /repo && patch -p1 -s -F3 --no-backup-if-mismatch < $dst/patch.diff) || { echo "cannot apply"; git -C /repo checkout -- .; exit 2; }
(cd /repo && GOFLAGS=-mod=mod GOPROXY=off go build ./... ) || { echo "does not build"; git -C /repo checkout -- .; exit 2; }
results=""
for p in "$@"; do
  /verif/bin/gosym check $p --tier quick > $dst/check_$p.log 2>&1; rc=$?
  nv=$(grep -c '^VIOLATION' $dst/check_$p.log)
  results="$results $p:exit=$rc,violations=$nv"
done
git -C /repo checkout -- .
[ -n "$(git -C /repo status --short)" ] && echo "WARNING: /repo not clean"
echo "$name checks:$results"
python3 - "$name" "$results" <<'PY'
import json,sys
name,results=sys.argv[1:3]
f=f"/verif/seeded/{name}/meta.json"
m=json.load(open(f)); m["check_results"]=results.strip(); json.dump(m,open(f,"w"),indent=1)
PY
