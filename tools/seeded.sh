#!/bin/bash
# usage: seeded.sh <name> <property> <worktree-with-patch.diff-and-demo> [extra props...]
# 1. confirms the seeded change in a fresh scratch worktree (builds, pinned suite passes, demo fails with / passes without)
# 2. stores it under /verif/seeded/<name>/
# 3. applies it to /repo, runs the property's quick check, restores /repo
set -u
name=$1; prop=$2; src=$3; shift 3
export GOFLAGS=-mod=mod GOPROXY=off GOSUMDB=off GOTOOLCHAIN=local
dst=/verif/seeded/$name
mkdir -p $dst
cp $src/patch.diff $dst/patch.diff
demo=$(cd $src && git ls-files --others --exclude-standard | grep 'zz_demo_test.go' | head -1)
[ -z "$demo" ] && demo=$(cd $src && find . -name zz_demo_test.go | head -1 | sed 's|^\./||')
cp $src/$demo $dst/zz_demo_test.go
[ -f $src/NOTES.md ] && cp $src/NOTES.md $dst/NOTES.md
demodir=$(dirname $demo)
scratch=$(mktemp -d /tmp/confirm.XXXX); rmdir $scratch
git -C /repo worktree add -q --detach $scratch HEAD
res_apply=fail; res_build=fail; res_suite=fail; res_demo_with=unknown; res_demo_without=unknown
( cd $scratch && git apply $dst/patch.diff ) && res_apply=ok
( cd $scratch && go build ./... ) >/dev/null 2>&1 && res_build=ok
( cd $scratch && go test -vet=off -count=1 ./... 2>&1 | grep -q "^ok  	github.com/vedadiyan/genql" ) && res_suite=ok
cp $dst/zz_demo_test.go $scratch/$demodir/zz_demo_test.go
racef=""; grep -qi "race" $dst/NOTES.md 2>/dev/null && racef="-race"
if ( cd $scratch && go test -vet=off -count=1 $racef -run 'TestDemo' ./$demodir ) >$dst/demo_with.log 2>&1; then res_demo_with=PASS; else res_demo_with=FAIL; fi
( cd $scratch && git checkout -q -- . )
if ( cd $scratch && go test -vet=off -count=1 $racef -run 'TestDemo' ./$demodir ) >$dst/demo_without.log 2>&1; then res_demo_without=PASS; else res_demo_without=FAIL; fi
git -C /repo worktree remove --force $scratch
echo "confirm: apply=$res_apply build=$res_build suite=$res_suite demo_with_change=$res_demo_with demo_without_change=$res_demo_without"
# run checks on /repo with the change applied
cd /verif
git -C /repo apply $dst/patch.diff || { echo "cannot apply to /repo"; exit 2; }
results=""
for p in $prop "$@"; do
  /verif/bin/gosym check $p --tier quick > $dst/check_$p.log 2>&1; rc=$?
  nv=$(grep -c '^VIOLATION' $dst/check_$p.log)
  results="$results $p:exit=$rc,violations=$nv"
done
git -C /repo checkout -- .
git -C /repo status --short | head -3
echo "checks:$results"
python3 - "$name" "$prop" "$res_apply" "$res_build" "$res_suite" "$res_demo_with" "$res_demo_without" "$results" "$demo" <<'PY'
import json,sys
name,prop,ap,bu,su,dw,dwo,results,demo=sys.argv[1:10]
meta={"name":name,"breaks_property":prop,"demo_test":demo,
 "confirmation":{"applies":ap,"builds":bu,"pinned_suite_passes_with_change":su,"demo_with_change":dw,"demo_without_change":dwo},
 "what_was_run":["git worktree add (scratch) + git apply patch.diff","go build ./...","go test -vet=off -count=1 ./...","go test -run TestDemo (with and without the change)","git -C /repo apply patch.diff; gosym check <property> --tier quick; git -C /repo checkout -- ."],
 "check_results":results.strip()}
try:
    meta["needs_to_manifest"]=open(f"/verif/seeded/{name}/NOTES.md").read()[:1500]
except Exception: pass
json.dump(meta,open(f"/verif/seeded/{name}/meta.json","w"),indent=1)
PY
