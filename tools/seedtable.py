#!/usr/bin/env python3
# regenerates /verif/seeded/README.md and the §8 table of DESIGN.md from seeded/*/meta.json
import json,glob,os,re
hist={
'm3_C02c':'missed → H_C02_null_binary (NULL/missing operands under nested arithmetic)','m3_C03c':'missed → H_C03_qualified (same-named columns of two joined sides)','m3_C05c':'missed → H_C05_window_distinct',
'm3_C07c':'missed → `<-col` / `<-<-col` inside EXISTS and subquery predicates added to H_C07_subquery; partial concretisation in the engine','m3_C09c':'missed → `distinct=>` selectors over document arrays with duplicates added to H_C09_reader',
'm3_C10c':'missed → PARALLEL joins with a failing ON and three outer keys added to H_C10_queries','m3_C11c':'missed → selector functions (`distinct=>`, `mix=>`, ranges) in FROM and select list added to H_C11_readonly',
'm3_C13c':'missed by C13 (caught by C14 as built) → ASYNC inside a subquery added to H_C13_queries','m3_C14c':'missed (weak oracle: started==finished) → exact call counts for nested SPINASYNC','m3_C16c':'missed → repeated placeholders with unused arguments added to H_C16_args',
'm3_C17c':'caught as built','m3_C19c':'missed → fault positions in every operand slot of every expression form (24 more templates); partial concretisation in the engine'}
summ={'m3_C02c':'BinaryExpr passes nested *float64 operands through without unwrapping: a NULL inner result makes the query fail','m3_C03c':'whole-table aggregate memo key drops the table qualifier (SUM(o.v) vs SUM(r.v))','m3_C05c':'offset>=rows early exit moved before DISTINCT: offsets between distinct and total count raise slice-bounds errors',
'm3_C07c':'scopeOf keeps an existing `<-` marker (rows merged by EXISTS navigate to the wrong scope)','m3_C09c':'`distinct=>` filters in place and overwrites the document array','m3_C10c':'ParallelJoinFunc returns while holding the mutex on the second failure: deadlock with three workers',
'm3_C11c':'same in-place `distinct=>` change, written against the read-only property','m3_C13c':'SubqueryExpr waits for the subquery goroutines in a post-processor that runs after the slot dereference','m3_C14c':'ExistExpr skips the wait when the subquery registered no post-processor (SPINASYNC under EXISTS)',
'm3_C16c':'unused-argument accounting by a counter: a repeated placeholder hides an unused argument','m3_C17c':'FindArrayIndex no longer tracks double-quoted literals','m3_C19c':'BETWEEN overwrites the lower-bound error with the upper-bound result'}

hist.update({'m4_C01d':'caught as built (also by C15 and C05)','m4_C03d':'caught as built','m4_C04d':'caught as built','m4_C06d':'caught as built','m4_C12d':'caught as built','m4_C14d':'caught as built','m4_C16d':'caught as built',
'm4_C08d':'missed → H_C08_options (nested evaluation equals per-inner-array evaluation under WithVars/WithConstants/SETVAR/dialect options)','m4_C09d':'missed → H_C09_pipes ({k|number} over every string ≤3 bytes of `0189.x-` against a decimal-syntax reference; {k|string} over halves); math.Mod(x,1) encoded exactly in the engine',
'm4_C15d':'missed → H_C15_kinds_str (float32/float64/int32/int64/uint16 incl. non-dyadic float32 tenths against strings, own text and extended text); float32 %v in the engine','m4_C18d':'missed → NULL true/false branches of IF added to H_C18_scalar','m4_C20d':'missed → H_C20_keys (fractional, large and string-vs-number keys, final map contents)'})
summ.update({'m4_C01d':'compare.Compare string fast path returns a length difference instead of -1/0/1 when one string is a prefix of the other','m4_C03d':'a new group aliases a one-row window of the input slice: appends for later members overwrite following input rows','m4_C04d':'nested-loop join reuses one merged-row map for all partners of a left row',
'm4_C06d':'UNION skips de-duplication when one branch is empty','m4_C08d':'the per-inner-array query copy gets fresh Options without vars/completion callback','m4_C09d':'{k|number} tries ParseInt(str, 0, 64) first: "010" is 8, "0x1F" is 31','m4_C12d':'ValueTupleExpr leaves *float64 results of arithmetic inside IN lists unresolved',
'm4_C14d':'derived table waits for its subquery goroutines only if it registered post-processors','m4_C15d':'number-vs-string comparison formats float32 at 64 bits (0.1 becomes 0.10000000149011612)','m4_C16d':'the rune after a closing single quote is swallowed by the placeholder lexer','m4_C18d':'IF(true, NULL, y) falls through to y','m4_C20d':'register keys truncate numeric names to their integer part'})

hist.update({'m5_C01e':'caught as built','m5_C11e':'caught as built','m5_C19e':'caught as built',
'm5_C02e':'missed (shift counts were assumed < 64) → any non-negative shift count in H_C02_intops','m5_C04e':'missed; engine lacked %#v (sampled passing paths failed natively: reported inconclusive) → %#v of strings in the engine, H_C04_mixedkinds','m5_C05e':'missed (LIMIT/OFFSET were bounded by 2^31) → any int in [0,2^63) in the C05 and C09 harnesses',
'm5_C06e':'missed by C06 (caught by C05 as built) → LIMIT/OFFSET windows on DISTINCT and on UNION in H_C06_distinct_num / H_C06_union','m5_C07e':'missed → CTE shadowing a document key, WITH nested in a derived table added to H_C07_shapes','m5_C10e':'missed → H_C10_queries2 (32 more unusual queries incl. outer INTO joins with unmatched rows), H_C10_arity (every built-in × 14 argument lists × qualifiers); found the genuine AWAIT() panic (fixed 838dc50)',
'm5_C12e':'missed → NULL/missing operands in arithmetic, CASE, ARRAY, IF, tuples, aggregates added to H_C12_plain','m5_C13e':'missed → H_C13_toplevel (distinct=>, mix=>, ranges, pipes from two threads); race monitor now sees intrinsic methods of shared bytes.Buffer / strings.Builder / sha256 digests','m5_C17e':'missed (needs 6 bytes; quick tier is ≤5) → H_C17_dq_context (identifier after every short prefix); found the genuine adjacent-identifier merge (fixed fc675f8)'})
summ.update({'m5_C01e':'x NOT IN (c) with a one-element literal list takes an IN shortcut placed before the negation','m5_C02e':'shift counts masked to 6 bits (1 << 64 is 1 instead of 0)','m5_C04e':'hash keys rendered with %#v: 1 and \'1\' no longer meet on the hash path while the nested loop still pairs them','m5_C05e':'window clamp rewritten as offset+limit > len(rs): overflows for LIMIT near MaxInt64 with a non-zero OFFSET',
'm5_C06e':'DISTINCT stops collecting at LIMIT rows, ignoring OFFSET','m5_C07e':'BuildCte skips a CTE whose name is already a key of the scope (document key or outer CTE)','m5_C10e':'HashJoinMatchFunc dereferences the right key map unconditionally: outer INTO join with an unmatched row panics out of New',
'm5_C11e':'New works on the caller\'s map unless the top-level statement is a plain SELECT with WITH: CTEs on a UNION or in a derived table are written into the caller\'s document','m5_C12e':'ValueOf returns the typed nil *float64 of NULL arithmetic instead of untyped nil','m5_C13e':'distinct=> reuses one package-level sha256 hasher','m5_C17e':'DoubleQuotesToBackTick applies backslash escapes inside backtick identifiers','m5_C19e':'JoinMatchFunc returns the partial matches together with the ON error; the caller tests ok before err'})

hist.update({'m6_C20f':'caught as built','m6_C09f':'caught as built','m6_C08f':'caught as built','m6_C14f':'caught as built','m6_C19f':'caught as built',
'm6_C02f':'inconclusive as built (math.Floor on a symbolic value had no model: exit 3, no verdict) → roundToIntegral RTN/RTP/RNA terms for math.Floor/Ceil/Round; then caught by H_C02_intops','m6_C15f':'missed (integers were bounded by 2^53) → every exactly representable int64/uint64 magnitude in H_C15_numeric/transitive','m6_C18f':'missed (CHANGETYPE to integer was never executed: shown by the block-coverage report too) → H_C18_changetype',
'm6_C11f':'missed → 13 joins with unmatched rows, with and without aliases, INTO, PARALLEL added to H_C11_readonly; first-byte ordering of number text against non-numeric text in the engine','m6_C03f':'missed → H_C03_nullkeys (NULL and missing grouping cells, one and two columns)','m6_C05f':'missed → H_C05_order_alias (renamed, computed and shadowing aliases as sort keys, with a window)','m6_C16f':'missed (integer arguments were -11..11) → int64/float64 extremes in H_C16_echo_scalar'})
summ.update({'m6_C02f':'DIV floors instead of truncating toward zero (-7 DIV 2 = -4)','m6_C03f':'a NULL/missing grouping cell is left out of the row key and matches any existing group','m6_C05f':'ORDER BY runs before projection: aliases and computed columns are not visible as sort keys','m6_C08f':'empty inner arrays are skipped: nesting of the result changes',
'm6_C09f':'range (n:end) skips the bounds check: begin beyond the array length panics','m6_C11f':'outer hash join writes the NULL partner key into the caller\'s row when the preserved table has no alias','m6_C14f':'Exec returns without waiting when no post-processor was registered (SPINASYNC only queries)','m6_C15f':'mixed integer types compared through int64: uint64 ≥ 2^63 wraps negative',
'm6_C16f':'negative int64 arguments rendered as (-N) via -arg: MinInt64 flips sign','m6_C18f':'CHANGETYPE(v, integer) parses with base 0 (010 is 8, 0x1F accepted)','m6_C19f':'HAVING: the skip-group test precedes the error test, failing groups are silently dropped','m6_C20f':'SETVAR(k, NULL) is a no-op: the earlier value stays readable'})

hist.update({'m7_C06g':'caught as built','m7_C16g':'caught as built','m7_C04g':'caught as built','m7_C03g':'caught as built','m7_C01g':'caught as built',
'm7_C07g':'inconclusive as built (sqlparser.String on a node value the library copied had no model) → AST nodes are lowered back to native nodes by reflection; then missed → root- and CTE-sourced correlated subqueries added to H_C07_subquery','m7_C09g':'missed → a top-level function and a keep=> marker in one selector segment added to H_C09_reader',
'm7_C10g':'missed by C10 (C09 catches the same range panic) → out-of-range ranges and indexes in FROM paths added to H_C10_queries2','m7_C13g':'missed → H_C13_selfpairs (every query of the other properties\' lists run by two threads at once under the race monitor; regexp.Compile/MatchString intrinsics); the new harness also found the genuine AWAIT(ASYNC.f(x)) race (fixed 7a1dba1)',
'm7_C17g':'missed → a backslash alphabet for H_C17_arrays','m7_C19g':'missed → H_C19_typeerrors (a wrong-shaped cell at every row position × 15 clause positions incl. ORDER BY keys)','m7_C12g':'missed → chains of asynchronous slots ending in NULL added to H_C12_plain'})
summ.update({'m7_C01g':'the WHERE result slice is query.from[:0]: filtering compacts the caller\'s table in place','m7_C03g':'whole-table aggregates fall back to the unfiltered table when WHERE rejects every row','m7_C04g':'nested-loop outer join emits only the first row of an unmatched duplicate-key group','m7_C06g':'DISTINCT reuses one hasher and skips Reset after a dropped duplicate',
'm7_C07g':'`<-`-sourced subqueries are memoised per query although they still refer to the current outer row','m7_C09g':'ParseSelector splits on every `=>`: fn=> with a later keep=> is not recognised as a function call','m7_C10g':'ranges using `end` skip the bounds check: begin beyond the array panics out of New','m7_C12g':'the async-slot chain stops one step early when the next slot holds NULL: a *interface{} reaches the row',
'm7_C13g':'LIKE memoises the last compiled pattern in package-level variables without synchronisation','m7_C16g':'NUL is rewritten to \\0 before backslashes are doubled','m7_C17g':'FindArrayIndex skips the byte after a backslash only if it is a quote: an escaped backslash before a closing quote inverts quote tracking','m7_C19g':'ORDER BY comparator treats a failed read of the second operand\'s key as NULL'})

hist.update({'m8_C02h':'inconclusive as built (ParseInt on the opaque text of a symbolic literal: partial concretisation) → H_C02_literals (18 concrete decimal spellings × sign, alone and inside arithmetic)','m8_C05h':'inconclusive as built (builtin max() on a symbolic int crashed the engine) → symbolic builtin min/max; then missed → whole-table aggregate shape in H_C05_pipeline',
'm8_C16h':'inconclusive as built (range over a symbolic string unsupported) → rune-by-rune range through utf8.DecodeRuneInString\'s SSA; then caught by H_C16_echo_str (byte 0xC3)','m8_C14h':'missed → user-registered immediate functions under mixed-case names × six qualifier spellings in H_C14_immediate','m8_C18h':'missed (case maps were checked on ASCII only) → H_C18_casemaps (23 runes from scripts where upper/lower/title differ, one- and two-rune strings)',
'm8_C15h':'missed → float64 values with exponent-form text (1e+06 … 2.1e+21, 1e-07) against strings, own text and extended text','m8_C06h':'missed → a plain SELECT branch with its own LIMIT/OFFSET inside UNION [ALL] … LIMIT (3 forms)','m8_C11h':'missed → documents whose rows carry a key spelled `<-`, CTEs inside select-list subqueries',
'm8_C04h':'missed → H_C04_aliases (aliases that are prefixes of one another, multi-letter aliases, both orientations)','m8_C08h':'missed → four depth-3 / mixed-depth shapes (empty array first, flat array first) × {nested, mix=>} in H_C08_depth3','m8_C20h':'missed → H_C20_prepared (queries built up front and executed later, re-executed, caller updates in between)','m8_C12h':'missed → `::` selectors next to the plain selectors their stages spell (H_C12_plain query, H_C09_sequence over every ordered pair of 45 selectors)'})
summ.update({'m8_C02h':'integer literals go through ParseInt(text, 0, 64): 010 is 8','m8_C04h':'column ownership in ON decided by HasPrefix(path, alias): alias t claims t2.y','m8_C05h':'row scan stops after offset+limit matches although an aggregate-only select list folds all rows','m8_C06h':'UNION ALL … LIMIT n pushes the LIMIT into every branch, overwriting a branch\'s own LIMIT/OFFSET',
'm8_C08h':'mix=> takes a one-level fast path when its first element holds no arrays','m8_C11h':'SubqueryExpr skips the private row copy when the row already has a `<-` key: a CTE inside the subquery is registered in the caller\'s row','m8_C12h':'selector cache stores the prefix chain under every stage text of a `::` selector: later plain selectors are silently redirected','m8_C14h':'RegisterImmediateFunction stores the name as given while the check lower-cases it: mixed-case immediate functions accept ASYNC/SPIN',
'm8_C15h':'number-vs-string renders integral float64 with FormatInt: 1e6 becomes 1000000 instead of 1e+06','m8_C16h':'QuoteString ranges over runes: bytes that are not valid UTF-8 become U+FFFD','m8_C18h':'TO_UPPER uses strings.ToTitle (differs for Latin digraphs and Georgian)','m8_C20h':'WithVars copies the caller\'s map at New and writes it back after Exec: queries prepared up front do not see each other\'s stores'})

hist.update({'m9_C20i':'caught as built','m9_C17i':'caught as built','m9_C07i':'caught as built','m9_C13i':'caught as built (H_C13_selfpairs)',
'm9_C01i':'inconclusive by C01 as built (ParseInt on the opaque text of symbolic literals: partial concretisation, 20 min), caught by C02 (H_C02_literals) → H_C01_literals (9 spellings of one constant under every operator, IN, NOT IN, BETWEEN)','m9_C03i':'missed → mixed-case column names in H_C03_group1; H_C02_colcase (15 clause templates over tables whose columns are spelled Cat/subTotal, KEY1/VAL, k_1/V2x against the lower-case spelling)',
'm9_C08i':'missed → levels that hold an inner array next to a plain row (both orders) and aliased projections in H_C08_depth3','m9_C09i':'missed (the 3×3 matrix needs neighbouring cells that differ for the overwrite to show) → ranges below the inner length on a 3×3 matrix, kept / flattened / through mix=>','m9_C10i':'missed → H_C10_reexec (every listed query executed three times on one Query object, with and without WithVars); SETVAR/GETVAR without WithVars inside PARALLEL join conditions',
'm9_C11i':'missed → a nested table whose rows have one key spelled like the table, read by EXISTS and by a select-list subquery','m9_C14i':'missed → names registered as ordinary/external functions (and the built-in CONCAT) re-registered as immediate','m9_C19i':'missed → failing calls inside AWAIT(...) in the select list and inside a row-scoped subquery'})
summ.update({'m9_C01i':'integer and hex literals parsed with ParseInt(text, 0, 64): WHERE code = 010 compares with 8','m9_C03i':'GROUP BY column names are lower-cased before the row lookup','m9_C07i':'an index/range selector on a lazily evaluated CTE is dropped after evaluation','m9_C08i':'ExecSelect returns a level unprojected when its first element is an array',
'm9_C09i':'MixArray returns non-nested input itself and adopts the first chunk: append writes into the document when a range leaves spare capacity','m9_C10i':'SETVAR unlocks inline: a panic (nil vars map) leaves the lock held; later stores deadlock','m9_C11i':'ExistExpr writes the outer columns into an inner row that looks like an alias wrapper (single key equal to the table name)','m9_C13i':'IsImmediateFunction sorts the package-level list in place on first use',
'm9_C14i':'RegisterImmediateFunction skips names that already exist in the function table','m9_C17i':'DoubleQuotesToBackTick writes identifier bytes with WriteRune (bytes ≥ 0x80 re-encoded)','m9_C19i':'AWAIT post-processor returns the enclosing nil err instead of the argument error','m9_C20i':'GETVAR of an unset key falls back to a selector lookup in the variable map'})
rows=[]
for d in sorted(glob.glob('/verif/seeded/m*')):
    n=os.path.basename(d)
    m=json.load(open(d+'/meta.json'))
    if n in summ: m['summary']=summ[n]
    if n in hist: m['history']=hist[n]
    json.dump(m,open(d+'/meta.json','w'),indent=1)
    rows.append((n,m['breaks_property'],m.get('summary',''),m['check_results'],m.get('history','')))
readme=open('/verif/seeded/README.md').read()
readme=readme[:readme.index('| name | property |')]
readme+='| name | property | change | last check result | history |\n|---|---|---|---|---|\n'
for r in rows: readme+='| %s | %s | %s | %s | %s |\n'%r
open('/verif/seeded/README.md','w').write(readme)
d=open('/verif/DESIGN.md').read()
i=d.index('| seeded change | property |')
j=d.index('## 9. Deviations')
built=sum(1 for r in rows if r[4].startswith('caught as built'))
tbl='| seeded change | property | what it needs to manifest | caught by | history |\n|---|---|---|---|---|\n'
for n,p,s,res,h in rows:
    caught=', '.join(sorted(set(re.findall(r'(C\d+):exit=1',res))))
    tbl+='| %s | %s | %s | check %s (`VIOLATION`, reproduced natively) | %s |\n'%(n,p,s,caught or '—',h)
tbl+='''
%d changes from three rounds (the third round was steered away from everything the first two
had touched): %d were caught by the checks as they stood, %d were missed and led to stronger
harnesses or engine changes (the "history" column); all %d are now reported as `VIOLATION` by
the check of the property they were written against, and every registered check still exits 0
on the unchanged tree. Almost all misses were of one kind: the engine explored every path of
the harness, but the harness's *template list* did not contain the clause combination the
change needed (a CTE on a UNION, SPINASYNC inside EXISTS, the same selector text used twice, a
LIKE pattern ending in `%%` with `_` before it, values that print alike, DISTINCT before
OFFSET, a fault in the lower bound of BETWEEN). Two were different: one oracle was too weak
(started == finished instead of an exact count), and twice the changed code formatted a
symbolic float, which used to end the path as `unsupported` (exit 3, no verdict); the engine
now explores the first 24 feasible values, reports a violation if one of them fails and
otherwise still exits 3. That is the honest limit of this design (§3, "the programs
quantifier"): symbolic values, enumerated programs.

---------------------------------------------------------------------------------------------

'''%(len(rows),built,len(rows)-built,len(rows))
d=d[:i]+tbl+d[j:]
open('/verif/DESIGN.md','w').write(d)
print(len(rows),built)
